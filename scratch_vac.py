import sys, time, collections
sys.path.insert(0,'/verif')
import z3
from contracts import wrappers as W
from pyvc import smt
from pyvc.symex import Obligation
mod, cls = sys.argv[1], sys.argv[2]
m = [x for x in W.MODULES if x[0]==mod][0]
c = W.Case(m[0], m[1], m[2], cls)
obs = c.obligations_call()
seen = {}
for o in obs:
    if o.kind=='clause' and o.info.get('pi') not in seen:
        seen[o.info['pi']] = Obligation('cover/'+o.path, o.pc, z3.BoolVal(False), path=o.path)
cov = list(seen.values())
res = smt.discharge(cov, timeout_ms=5000)
cnt = collections.Counter(r['res'] for r in res)
print(cls, 'paths', len(cov), cnt)
for o,r in zip(cov,res):
    if r['res']=='unsat': print('  DEAD', o.path)
