#!/bin/sh
# usage: tools_mut.sh <patch> <prop> [<prop>...] : apply a seeded change to /repo, run the checks, undo it
P=$1; shift
git -C /repo apply "$P" || { echo "patch does not apply"; exit 9; }
for prop in "$@"; do /verif/check $prop 2>&1 | grep -E "VIOLATION|KNOWN|UNDECIDED|BROKEN|exit=" | cut -c1-260 | head -${MUT_LINES:-6}; done
git -C /repo checkout -- .
