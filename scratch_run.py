import sys, time, collections
sys.path.insert(0,'/verif')
from contracts import wrappers as W
from pyvc import smt
mod = sys.argv[1] if len(sys.argv)>1 else '_cache.py'
cls = sys.argv[2] if len(sys.argv)>2 else 'inf_cache'
m = [x for x in W.MODULES if x[0]==mod][0]
t0=time.time()
c = W.Case(m[0], m[1], m[2], cls)
print('setup', time.time()-t0, 'unsupported:', c.unsupported, c.module_unsupported if hasattr(c,'module_unsupported') else None)
if c.unsupported: sys.exit(2)
print('roles', c.stats_ref, c.queue_ref, c.counter_ref, c.sentinel_ref, c.eff_maxsize, c.eff_purge)
t0=time.time()
obs = W.all_obligations(c) if len(sys.argv)>3 and sys.argv[3]=='all' else c.obligations_call()
print('paths', c.paths_call, 'obligations', len(obs), 'symex s', time.time()-t0, c.I.stats)
t0=time.time()
res = smt.discharge(obs)
print('solve s', time.time()-t0)
cnt = collections.Counter(r['res'] for r in res)
print(cnt)
for o,r in zip(obs,res):
    if r['res']!='unsat':
        print(r['res'], o.prop, o.name, '| path:', o.path, '|', round(r['ms']), r['reason'])
