#!/bin/sh
# Build the overlay virtualenv /verif/.venv (python 3.12 of /venv + z3-solver, crosshair, deal,
# icontract, hypothesis, jsonschema from the offline wheelhouse; klepto and its deps come from
# /venv's site-packages through a .pth file, klepto itself is the editable install of /repo).
set -e
cd "$(dirname "$0")"
if [ -x .venv/bin/python ] && .venv/bin/python -c "import z3, klepto, jsonschema" 2>/dev/null; then
  echo "overlay venv present"; exit 0
fi
rm -rf .venv
/venv/bin/python -m venv .venv
PIP_NO_INDEX=1 .venv/bin/pip install -q --no-index --find-links /opt/veriftools/wheels \
    z3-solver jsonschema crosshair-tool deal icontract hypothesis >/dev/null
echo "import site; site.addsitedir('/venv/lib/python3.12/site-packages')" \
    > .venv/lib/python3.12/site-packages/_overlay.pth
.venv/bin/python -c "import z3, klepto, jsonschema, crosshair; print('overlay venv ok', z3.get_version_string(), klepto.__file__)"
