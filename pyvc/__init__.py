"""pyvc -- verification-condition generator for a subset of Python.

Re-reads the real source of /repo/klepto on every run (ast), executes the
functions under contract symbolically (all paths, exceptional edges included)
over z3 terms, and emits one proof obligation per (path, clause).  See
/verif/DESIGN.md section 3.
"""
