"""Discharging obligations: z3 (python API, in worker processes via SMT-LIB2 text),
optional second opinion from the z3 4.8.12 CLI.

Verdict per obligation instance:  unsat -> discharged ; sat -> failed (model available by
re-solving in the parent) ; unknown/timeout -> undecided.  `unknown` is never read as either.
"""
import multiprocessing
import os
import subprocess
import tempfile
import time
import z3

TIMEOUT_MS = int(os.environ.get('PYVC_TIMEOUT_MS', '20000'))


def to_smt2(ob, axioms=()):
    s = z3.Solver()
    for a in axioms:
        s.add(a)
    for c in ob.pc:
        s.add(c)
    s.add(z3.Not(ob.goal))
    return s.to_smt2()


def _solve_text(args):
    idx, text, timeout_ms = args
    t0 = time.time()
    try:
        ctx = z3.Context()
        s = z3.Solver(ctx=ctx)
        s.set('timeout', timeout_ms)
        s.from_string(text)
        r = s.check()
        res = str(r)
        reason = s.reason_unknown() if r == z3.unknown else ''
    except Exception as e:  # pragma: no cover
        res, reason = 'error', repr(e)
    return idx, res, reason, (time.time() - t0) * 1000.0


def solve_inprocess(ob, axioms=(), timeout_ms=None, want_model=False):
    s = z3.Solver()
    s.set('timeout', timeout_ms or TIMEOUT_MS)
    for a in axioms:
        s.add(a)
    for c in ob.pc:
        s.add(c)
    s.add(z3.Not(ob.goal))
    t0 = time.time()
    r = s.check()
    ms = (time.time() - t0) * 1000.0
    model = s.model() if (r == z3.sat and want_model) else None
    return str(r), ms, model, (s.reason_unknown() if r == z3.unknown else '')


def discharge(obs, axioms=(), procs=None, timeout_ms=None):
    """-> list of dicts {res, ms, reason} aligned with obs"""
    timeout_ms = timeout_ms or TIMEOUT_MS
    procs = procs or int(os.environ.get('PYVC_PROCS', '14'))
    # trivial goals are decided syntactically
    out = [None] * len(obs)
    jobs = []
    for i, ob in enumerate(obs):
        g = z3.simplify(ob.goal)
        if z3.is_true(g):
            out[i] = {'res': 'unsat', 'ms': 0.0, 'reason': 'trivial'}
        else:
            jobs.append((i, to_smt2(ob, axioms), timeout_ms))
    if jobs:
        if procs <= 1 or len(jobs) < 4:
            results = [_solve_text(j) for j in jobs]
        else:
            ctx = multiprocessing.get_context('fork')
            with ctx.Pool(procs) as pool:
                results = pool.map(_solve_text, jobs, chunksize=max(1, len(jobs) // (procs * 8)))
        for idx, res, reason, ms in results:
            out[idx] = {'res': res, 'ms': ms, 'reason': reason}
    return out


def z3_cli_check(text, timeout_s=30, binary='/usr/bin/z3'):
    """second opinion from an independent z3 build (4.8.12)"""
    with tempfile.NamedTemporaryFile('w', suffix='.smt2', delete=False) as f:
        f.write(text)
        f.write('\n(check-sat)\n')
        path = f.name
    try:
        p = subprocess.run([binary, '-T:%d' % timeout_s, path], capture_output=True, text=True,
                           timeout=timeout_s + 5)
        out = p.stdout.strip().splitlines()
        return out[0] if out else 'error'
    except Exception as e:  # pragma: no cover
        return 'error'
    finally:
        os.unlink(path)
