"""Builtin names and modelled externals (assumed contracts, DESIGN.md 4.2)."""
import ast
import z3
from .symex import (forall, Val, INT, BOOL, fresh, Hashable, NoneC, PV, Opaque, IntV, BoolV, NoneV, NONE,
                    StrV, TupleV, Ref, FuncV, BoundV, ClosureV, MethodV, ClassV, PropertyV, ExcV, SeqV,
                    ViewV, ModuleV, Exc, CallArgs, Unsupported, EXC_BASES, Interp)
from . import models
from .models import (DictObj, ConcDict, ListObj, DequeObj, InstObj, ArchiveObj, keys_seq)

from .symex import SKIP


def _plain(ca, name, n=None, nmax=None, kw=()):
    if not ca.plain():
        raise Unsupported('%s called with symbolic */** arguments' % name)
    for k in ca.kw:
        if k not in kw:
            raise Unsupported('%s called with keyword %s' % (name, k))
    if n is not None:
        hi = nmax if nmax is not None else n
        if not (n <= len(ca.pos) <= hi):
            raise Unsupported('%s called with %d positional arguments' % (name, len(ca.pos)))
    return ca.pos


# ---- builtin functions -------------------------------------------------------
def b_len(I, st, ca):
    (o,) = _plain(ca, 'len', 1)
    if isinstance(o, Ref):
        obj = st.get(o)
        cls = getattr(obj, 'cls', None)
        if cls is not None:
            v, owner = cls.lookup('__len__')
            if isinstance(v, ClosureV):
                return I.call(st, v, CallArgs([o]))
        if obj.kind in ('dict', 'archive'):
            return [(st, IntV(obj.size))]
        if obj.kind == 'deque':
            return [(st, IntV(obj.hi - obj.lo))]
        if obj.kind == 'list':
            return [(st, IntV(len(obj.items)))]
        if obj.kind == 'concdict':
            return [(st, IntV(len(obj.items)))]
        if hasattr(obj, 'length'):
            return obj.length(I, st, o)
    if isinstance(o, TupleV):
        return [(st, IntV(len(o.items)))]
    if isinstance(o, SeqV):
        return [(st, IntV(o.length))]
    if isinstance(o, StrV):
        return [(st, IntV(len(o.s)))]
    h = I.len_hook
    if h is not None:
        r = h(I, st, o)
        if r is not None:
            return r
    raise Unsupported('len(%r)' % (o,))


def b_max(I, st, ca):
    a = _plain(ca, 'max', 2)
    if all(isinstance(x, IntV) for x in a):
        return [(st, IntV(z3.If(a[0].term >= a[1].term, a[0].term, a[1].term)))]
    raise Unsupported('max%r' % (a,))


def b_min(I, st, ca):
    a = _plain(ca, 'min', 2)
    if all(isinstance(x, IntV) for x in a):
        return [(st, IntV(z3.If(a[0].term <= a[1].term, a[0].term, a[1].term)))]
    raise Unsupported('min%r' % (a,))


def b_bool(I, st, ca):
    a = _plain(ca, 'bool', 0, 1)
    if not a:
        return [(st, BoolV(False))]
    out = []
    for (s, t) in I.truth_fork(st, a[0]):
        out.append((s, t if isinstance(t, Exc) else BoolV(t)))
    return out


def b_isinstance(I, st, ca):
    o, c = _plain(ca, 'isinstance', 2)
    classes = c.items if isinstance(c, TupleV) else (c,)
    for k in classes:
        if not isinstance(k, ClassV):
            raise Unsupported('isinstance against %r' % (k,))
    h = I.isinstance_hook
    if h is not None:
        r = h(I, st, o, classes)
        if r is not None:
            return r
    cls = models.class_of(I, st, o)
    if cls is not None:
        return [(st, BoolV(any(cls.issub(k) for k in classes)))]
    if isinstance(o, IntV):
        return [(st, BoolV(any(k.name in ('int', 'object') for k in classes)))]
    if isinstance(o, BoolV):
        return [(st, BoolV(any(k.name in ('int', 'bool', 'object') for k in classes)))]
    if isinstance(o, StrV):
        return [(st, BoolV(any(k.name in ('str', 'object') for k in classes)))]
    if isinstance(o, NoneV):
        return [(st, BoolV(any(k.name in ('NoneType', 'object') for k in classes)))]
    if isinstance(o, TupleV):
        return [(st, BoolV(any(k.name in ('tuple', 'object') for k in classes)))]
    if isinstance(o, Opaque):
        # an arbitrary object: symbolic answer, one predicate per class
        conds = [IsInst(o.term, I.class_id(k)) for k in classes]
        return [(st, BoolV(z3.Or(*conds)))]
    raise Unsupported('isinstance(%r, ...)' % (o,))


IsInst = z3.Function('IsInst', Val, INT, BOOL)


def b_type(I, st, ca):
    (o,) = _plain(ca, 'type', 1)
    cls = models.class_of(I, st, o)
    if cls is not None:
        return [(st, cls)]
    for (pv, nm) in ((IntV, 'int'), (BoolV, 'bool'), (StrV, 'str'), (TupleV, 'tuple'), (NoneV, 'NoneType')):
        if isinstance(o, pv):
            return [(st, I.builtins[nm] if nm in I.builtins else ClassV(nm, model=_nomodel))]
    raise Unsupported('type(%r)' % (o,))


def b_hasattr(I, st, ca):
    o, n = _plain(ca, 'hasattr', 2)
    if not isinstance(n, StrV):
        raise Unsupported('hasattr with non-constant name')
    h = I.hasattr_hook
    if h is not None:
        r = h(I, st, o, n.s)
        if r is not None:
            return r
    out = []
    try:
        res = I.getattr(st, o, n.s)
    except Unsupported:
        raise
    for (s, r) in res:
        out.append((s, BoolV(not (isinstance(r, Exc) and r.kind == 'AttributeError'))))
    return out


def b_getattr(I, st, ca):
    a = _plain(ca, 'getattr', 2, 3)
    o, n = a[0], a[1]
    if not isinstance(n, StrV):
        raise Unsupported('getattr with non-constant name')
    try:
        res = I.getattr(st, o, n.s)
    except Unsupported:
        if len(a) == 3 and isinstance(o, FuncV):
            # a modelled callable (the user function, a builtin): the attribute is some object or missing -> the default
            out = []
            for (s, has) in I.branch(st, fresh('has_attr_' + n.s, BOOL), None, None):
                out.append((s, Opaque(fresh('attr_' + n.s, Val)) if has else a[2]))
            return out
        raise
    out = []
    for (s, r) in res:
        if isinstance(r, Exc) and r.kind == 'AttributeError' and len(a) == 3:
            out.append((s, a[2]))
        else:
            out.append((s, r))
    return out


def b_repr(I, st, ca):
    _plain(ca, 'repr', 1)
    return [(st, Opaque(fresh('repr', Val)))]


def b_iter(I, st, ca):
    a = _plain(ca, 'iter', 1, 2)
    if len(a) == 1:
        o = a[0]
        if isinstance(o, ViewV) and o.kind == 'iter':
            return [(st, o)]
        if isinstance(o, (ViewV, SeqV, TupleV)):
            return [(st, ViewV('iter', o))]
        if isinstance(o, Ref):
            obj = st.get(o)
            u = None
            cls = getattr(obj, 'cls', None)
            if cls is not None:
                u, owner = cls.lookup('__iter__')
            if isinstance(u, ClosureV):
                return I.call(st, u, CallArgs([o]))
            if obj.kind == 'dict':
                return [(st, ViewV('iter', ViewV('keys', o)))]
            if obj.kind == 'list':
                return [(st, ViewV('iter', TupleV(obj.items)))]
        raise Unsupported('iter(%r)' % (o,))
    fn, sentinel = a

    def nextfn(I, st):
        out = []
        for (s, v) in I.call(st, fn, CallArgs()):
            if isinstance(v, Exc):
                out.append((s, v))
                continue
            eq = models.equal(I, s, v, sentinel, None)
            if isinstance(eq, bool):
                eq = z3.BoolVal(eq)
            for (s1, stop) in I.branch(s, eq, 'iter-stop', 'iter-item'):
                out.append((s1, Exc('StopIteration', origin='iter(callable, sentinel)') if stop else v))
        return out
    return [(st, FuncV('iter(callable,sentinel)', None, ('nextfn', nextfn)))]


def e_filterfalse(I, st, ca):
    pred, it = _plain(ca, 'filterfalse', 2)
    if not (isinstance(it, FuncV) and it.tag and it.tag[0] == 'nextfn'):
        raise Unsupported('filterfalse over %r' % (it,))
    inner = it.tag[1]

    def nextfn(I, st):
        out = []
        for (s, v) in inner(I, st):
            if isinstance(v, Exc) or v is SKIP:
                out.append((s, v))
                continue
            for (s1, r) in I.call(s, pred, CallArgs([v])):
                if isinstance(r, Exc):
                    out.append((s1, r))
                    continue
                for (s2, t) in I.truth_fork(s1, r):
                    if isinstance(t, Exc):
                        out.append((s2, t))
                    else:
                        out.append((s2, SKIP if t else v))
        return out
    return [(st, FuncV('filterfalse', None, ('nextfn', nextfn)))]


def b_list(I, st, ca):
    a = _plain(ca, 'list', 0, 1)
    if not a:
        s = st.fork()
        return [(s, s.alloc(ListObj(())))]
    o = a[0]
    if isinstance(o, ViewV) and o.kind == 'iter':
        o = o.base
    if isinstance(o, TupleV):
        s = st.fork()
        return [(s, s.alloc(ListObj(o.items)))]
    if isinstance(o, ViewV) and o.kind == 'keys' and isinstance(o.base, Ref) and st.get(o.base).kind == 'dict':
        s = st.fork()
        return [(s, keys_seq(I, s, o.base))]
    if isinstance(o, ViewV) and o.kind == 'items' and isinstance(o.base, Ref) and st.get(o.base).kind == 'dict':
        s = st.fork()
        return [(s, keys_seq(I, s, o.base, with_values=True))]
    if isinstance(o, Ref) and st.get(o).kind == 'list':
        s = st.fork()
        return [(s, s.alloc(ListObj(st.get(o).items)))]
    h = I.list_hook
    if h is not None:
        r = h(I, st, o)
        if r is not None:
            return r
    raise Unsupported('list(%r)' % (o,))


def b_tuple(I, st, ca):
    a = _plain(ca, 'tuple', 0, 1)
    if not a:
        return [(st, TupleV(()))]
    items = I.static_seq(st, a[0])
    if items is not None:
        return [(st, TupleV(items))]
    h = I.tuple_hook
    if h is not None:
        r = h(I, st, a[0])
        if r is not None:
            return r
    raise Unsupported('tuple(%r)' % (a[0],))


def b_property(I, st, ca):
    a = _plain(ca, 'property', 0, 2)
    return [(st, PropertyV(a[0] if a else None, a[1] if len(a) > 1 else None))]


def b_str(I, st, ca):
    a = _plain(ca, 'str', 0, 1)
    if a and isinstance(a[0], StrV):
        return [(st, a[0])]
    if a and isinstance(a[0], IntV) and a[0].concrete() is not None:
        return [(st, StrV(str(a[0].concrete())))]
    h = I.str_hook
    if h is not None and a:
        r = h(I, st, a[0])
        if r is not None:
            return r
    return [(st, Opaque(fresh('str', Val)))]


def _nomodel(I, st, cls, ca, node):
    raise Unsupported('instantiation of builtin %s' % cls.name, node)


def m_object(I, st, cls, ca, node):
    s = st.fork()
    return [(s, s.alloc(InstObj(I.builtins['object'])))]


def m_dict(I, st, cls, ca, node):
    if not ca.plain():
        raise Unsupported('dict(*x)', node)
    if not ca.pos and not ca.kw:
        s = st.fork()
        return [(s, s.alloc(DictObj.empty('Val', role='fresh')))]
    if not ca.pos:
        s = st.fork()
        return [(s, s.alloc(ConcDict(ca.kw)))]
    if len(ca.pos) == 1 and not ca.kw:
        o = ca.pos[0]
        if isinstance(o, ViewV) and o.kind == 'items' and isinstance(o.base, Ref):
            d = st.get(o.base)
            if d.kind == 'dict':
                s = st.fork()
                return [(s, s.alloc(DictObj(d.dom, d.val, d.size, d.vsort, None, {}, None)))]
        if isinstance(o, Ref):
            d = st.get(o)
            if d.kind == 'dict':
                s = st.fork()
                return [(s, s.alloc(DictObj(d.dom, d.val, d.size, d.vsort, None, {}, None)))]
            if d.kind == 'concdict':
                s = st.fork()
                return [(s, s.alloc(ConcDict(d.items)))]
        items = I.static_seq(st, o)
        if items is not None and all(isinstance(x, TupleV) and len(x.items) == 2 and isinstance(x.items[0], StrV) for x in items):
            s = st.fork()
            return [(s, s.alloc(ConcDict(dict((x.items[0].s, x.items[1]) for x in items))))]
        h = I.dict_hook
        if h is not None:
            r = h(I, st, o)
            if r is not None:
                return r
    raise Unsupported('dict(%r)' % (ca,), node)


def m_exception(I, st, cls, ca, node):
    if not ca.plain():
        raise Unsupported('exception constructed with star arguments', node)
    return [(st, ExcV(cls.name, ca.pos, fresh('exc', Val)))]


def m_deque(I, st, cls, ca, node):
    if ca.pos or ca.kw or not ca.plain():
        raise Unsupported('deque(args)', node)
    s = st.fork()
    return [(s, s.alloc(DequeObj.empty()))]


def dict_unbound_init(I, st, ca):
    """dict.__init__(self, *args, **kwds) called explicitly on a dict-subclass instance"""
    if not ca.pos:
        raise Unsupported('dict.__init__ without self')
    self_ = ca.pos[0]
    rest = ca.pos[1:]
    if ca.star is None and ca.dstar is None and not rest and not ca.kw:
        return [(st, NONE)]
    h = I.dictinit_hook
    if h is not None:
        r = h(I, st, self_, CallArgs(rest, ca.kw, ca.star, ca.dstar))
        if r is not None:
            return r
    raise Unsupported('dict.__init__ with arguments')


def e_itemgetter(I, st, ca):
    (i,) = _plain(ca, 'itemgetter', 1)
    c = i.concrete() if isinstance(i, IntV) else None
    if c is None:
        raise Unsupported('itemgetter(non-constant)')
    return [(st, FuncV('itemgetter(%d)' % c, None, ('itemgetter', c)))]


def e_nsmallest(I, st, ca):
    """heapq.nsmallest(n, iterable_of_(key,count), key=itemgetter(1)): min(n,len) distinct items,
    each no larger (by count) than every item not returned."""
    n, it = _plain(ca, 'nsmallest', 2, kw=('key',))
    keyf = ca.kw.get('key')
    if not (isinstance(keyf, FuncV) and keyf.tag == ('itemgetter', 1)):
        raise Unsupported('nsmallest with key=%r' % (keyf,))
    if isinstance(it, ViewV) and it.kind == 'iter':
        it = it.base
    if not (isinstance(it, ViewV) and it.kind == 'items' and isinstance(it.base, Ref)):
        raise Unsupported('nsmallest over %r' % (it,))
    d = st.get(it.base)
    if d.kind != 'dict' or d.vsort != 'Int' or not isinstance(n, IntV):
        raise Unsupported('nsmallest over non-counter')
    s = st.fork()
    m = fresh('m', INT)
    wk = fresh('wk', models.IntValMap)
    widx = fresh('widx', models.ValIntMap)
    i = z3.Const('i!q', INT)
    x = z3.Const('x!q', Val)
    inW = lambda t: z3.And(0 <= widx[t], widx[t] < m, wk[widx[t]] == t)
    s.assume(m == z3.If(n.term <= 0, 0, z3.If(n.term <= d.size, n.term, d.size)),
             forall([i], z3.Implies(z3.And(0 <= i, i < m), z3.And(d.dom[wk[i]], widx[wk[i]] == i)),
                       patterns=[wk[i]]),
             forall([i, x], z3.Implies(z3.And(0 <= i, i < m, d.dom[x], z3.Not(inW(x))),
                                          d.val[wk[i]] <= d.val[x]), patterns=[z3.MultiPattern(wk[i], d.dom[x])]))
    seq = SeqV(m, lambda j: TupleV([Opaque(wk[j]), IntV(d.val[wk[j]])]), 'nsmallest',
               {'wk': wk, 'widx': widx, 'm': m, 'dict': d, 'n': n.term})
    return [(s, seq)]


def e_choice(I, st, ca):
    (seq,) = _plain(ca, 'choice', 1)
    if isinstance(seq, SeqV):
        out = []
        for (s, ne) in I.branch(st, seq.length > 0, 'choice-ok', 'choice-empty'):
            if not ne:
                out.append((s, Exc('IndexError', origin='choice from empty sequence')))
            else:
                j = fresh('choice', INT)
                s1 = s.fork()
                s1.assume(0 <= j, j < seq.length)
                s1.events.append(('choice', seq, j))
                out.append((s1, seq.elem(j)))
        return out
    raise Unsupported('choice(%r)' % (seq,))


def e_update_wrapper(I, st, ca):
    w, f = _plain(ca, 'update_wrapper', 2)
    out = []
    for (s, r) in I.setattr(st, w, '__wrapped__', f):
        out.append((s, r if isinstance(r, Exc) else w))
    return out


Round = z3.Function('Round', Val, Val, Val)          # Python's round(x, ndigits) on objects


def b_round(I, st, ca):
    a = _plain(ca, 'round', 1, 2)
    nd = I.to_val(a[1]) if len(a) == 2 else NoneC
    return [(st, Opaque(Round(I.to_val(a[0]), nd)))]


def b_enumerate(I, st, ca):
    (o,) = _plain(ca, 'enumerate', 1)
    items = I.static_seq(st, o)
    if items is None:
        raise Unsupported('enumerate over a sequence of unknown length')
    return [(st, TupleV([TupleV([IntV(i), x]) for i, x in enumerate(items)]))]


def b_sorted(I, st, ca):
    (o,) = _plain(ca, 'sorted', 1)
    items = I.static_seq(st, o)
    if items is None:
        raise Unsupported('sorted over a sequence of unknown length')
    keys = []
    for it in items:
        k = it.items[0] if isinstance(it, TupleV) and it.items else it
        if not isinstance(k, StrV):
            raise Unsupported('sorted: elements are not (constant string, ...) pairs')
        keys.append(k.s)
    if len(set(keys)) != len(keys):
        raise Unsupported('sorted: equal first components')
    s = st.fork()
    return [(s, s.alloc(ListObj(tuple(x for _, x in sorted(zip(keys, items), key=lambda kv: kv[0])))))]


def make_builtins():
    b = {}
    obj = ClassV('object', model=m_object)
    b['object'] = obj
    dct = ClassV('dict', bases=[obj], model=m_dict)
    dct.ns['__init__'] = FuncV('dict.__init__', dict_unbound_init)
    b['dict'] = dct
    for n in ('int', 'str', 'tuple', 'list', 'set', 'frozenset', 'float', 'bytes', 'bool', 'type'):
        b[n + '!cls'] = ClassV(n, bases=[obj], model=_nomodel)
    excs = {}
    for n in sorted(EXC_BASES, key=lambda k: (0 if EXC_BASES[k] is None else 1, k)):
        pass
    # build in dependency order
    todo = dict(EXC_BASES)
    while todo:
        for n, base in list(todo.items()):
            if base is None:
                excs[n] = ClassV(n, bases=[obj], model=m_exception)
                del todo[n]
            elif base in excs:
                excs[n] = ClassV(n, bases=[excs[base]], model=m_exception)
                del todo[n]
    b.update(excs)
    b['len'] = FuncV('len', b_len)
    b['max'] = FuncV('max', b_max)
    b['min'] = FuncV('min', b_min)
    b['bool'] = FuncV('bool', b_bool)
    b['isinstance'] = FuncV('isinstance', b_isinstance)
    b['type'] = FuncV('type', b_type)
    b['hasattr'] = FuncV('hasattr', b_hasattr)
    b['getattr'] = FuncV('getattr', b_getattr)
    b['repr'] = FuncV('repr', b_repr)
    b['iter'] = FuncV('iter', b_iter)
    b['list'] = FuncV('list', b_list)
    b['tuple'] = FuncV('tuple', b_tuple)
    b['property'] = FuncV('property', b_property)
    b['str'] = FuncV('str', b_str)
    b['round'] = FuncV('round', b_round)
    b['enumerate'] = FuncV('enumerate', b_enumerate)
    b['sorted'] = FuncV('sorted', b_sorted)
    b['float'] = b['float!cls']
    b['True'] = BoolV(True)
    b['False'] = BoolV(False)
    b['None'] = NONE
    b['NotImplemented'] = Opaque(z3.Const('NotImplementedC', Val))
    return b


def make_externals(b):
    e = {}
    e[('collections', 'deque')] = ClassV('deque', bases=[b['object']], model=m_deque)
    e[('itertools', 'filterfalse')] = FuncV('filterfalse', e_filterfalse)
    e[('heapq', 'nsmallest')] = FuncV('nsmallest', e_nsmallest)
    e[('operator', 'itemgetter')] = FuncV('itemgetter', e_itemgetter)
    e[('random', 'choice')] = FuncV('choice', e_choice)
    e[('functools', 'update_wrapper')] = FuncV('update_wrapper', e_update_wrapper)
    return e


class Engine(Interp):
    """Interp + builtins + hooks"""

    def __init__(self, axioms=None, prune=True):
        b = make_builtins()
        Interp.__init__(self, b, axioms, prune)
        self.externals = make_externals(b)
        self.attr_hooks = {}
        self.item_hooks = {}
        self.method_hooks = {}
        self.binop_hook = None
        self.comp_hook = None
        self.len_hook = None
        self.isinstance_hook = None
        self.hasattr_hook = None
        self.list_hook = None
        self.tuple_hook = None
        self.str_hook = None
        self.dict_hook = None
        self.dictinit_hook = None
        self._class_ids = {}
        self._kind_classes = {}

    def class_id(self, cls):
        if cls.name not in self._class_ids:
            self._class_ids[cls.name] = len(self._class_ids)
        return self._class_ids[cls.name]

    def builtin_class(self, kind):
        if kind in ('dict',):
            return self.builtins['dict']
        if kind == 'inst':
            return self.builtins['object']
        if kind in ('archive', 'deque', 'list', 'concdict', 'file', 'set'):
            if kind not in self._kind_classes:
                nm = {'concdict': 'dict', 'archive': 'archive'}.get(kind, kind)
                self._kind_classes[kind] = ClassV(nm, bases=[self.builtins['object']], model=_nomodel)
            return self._kind_classes[kind]
        return None
