"""Symbolic executor for a subset of Python over z3 terms.

All paths of a function body are enumerated eagerly (exceptional edges
included).  A path is a State: environments, heap of model objects, path
condition (list of z3 Bools), event trace.  Anything outside the supported
subset raises Unsupported (fail closed) -- it is never skipped.

Python semantics assumed by the encoding are listed in DESIGN.md 3.2/4.2 and
repeated in every evidence file (trusted_base).
"""
import ast
import itertools
import z3

# ----------------------------------------------------------------------------
# sorts and global symbols
# ----------------------------------------------------------------------------
Val = z3.DeclareSort('Val')            # an arbitrary Python object
INT = z3.IntSort()
BOOL = z3.BoolSort()

_counter = itertools.count()


def fresh(name, sort):
    return z3.Const('%s!%d' % (name, next(_counter)), sort)


def forall(vs, body, patterns=None):
    """ForAll with patterns when they are valid z3 patterns (selects on lambdas are not)"""
    if patterns:
        try:
            return z3.ForAll(vs, body, patterns=patterns)
        except z3.Z3Exception:
            pass
    return z3.ForAll(vs, body)


z3.set_param('warning', False)


def reset_fresh():
    global _counter
    _counter = itertools.count()


Hashable = z3.Function('Hashable', Val, BOOL)          # hash(x) succeeds
BoxInt = z3.Function('BoxInt', INT, Val)                # int  -> object
UnboxInt = z3.Function('UnboxInt', Val, INT)
BoxBool = z3.Function('BoxBool', BOOL, Val)
NoneC = z3.Const('NoneC', Val)
ExcIsInst = z3.Function('ExcIsInst', Val, INT, BOOL)    # isinstance(exc, class#)
Truthy = z3.Function('Truthy', Val, BOOL)               # bool(x) of an opaque object


PRUNE_RLIMIT = int(__import__('os').environ.get('PYVC_PRUNE_RLIMIT', '40000'))


class Unsupported(Exception):
    """source left the supported subset (fail closed)"""
    def __init__(self, msg, node=None):
        self.msg = msg
        self.node = node
        line = getattr(node, 'lineno', None)
        Exception.__init__(self, '%s%s' % (msg, ' (line %s)' % line if line else ''))


class EngineError(Exception):
    """the engine itself is inconsistent"""


# ----------------------------------------------------------------------------
# Python values
# ----------------------------------------------------------------------------
class PV(object):
    __slots__ = ()


class Opaque(PV):
    __slots__ = ('term',)

    def __init__(self, term):
        assert term.sort() == Val, term.sort()
        self.term = term

    def __repr__(self):
        return 'Opaque(%s)' % self.term


class IntV(PV):
    __slots__ = ('term',)

    def __init__(self, term):
        if isinstance(term, int):
            term = z3.IntVal(term)
        self.term = term

    def concrete(self):
        t = z3.simplify(self.term)
        if z3.is_int_value(t):
            return t.as_long()
        return None

    def __repr__(self):
        return 'IntV(%s)' % self.term


class BoolV(PV):
    __slots__ = ('term',)

    def __init__(self, term):
        if isinstance(term, bool):
            term = z3.BoolVal(term)
        self.term = term

    def __repr__(self):
        return 'BoolV(%s)' % self.term


class NoneV(PV):
    __slots__ = ()

    def __repr__(self):
        return 'NoneV'


NONE = NoneV()


class StrV(PV):
    __slots__ = ('s',)

    def __init__(self, s):
        self.s = s

    def __repr__(self):
        return 'StrV(%r)' % (self.s,)


class TupleV(PV):
    """tuple of statically known length (immutable)"""
    __slots__ = ('items',)

    def __init__(self, items):
        self.items = tuple(items)

    def __repr__(self):
        return 'TupleV%r' % (self.items,)


class Ref(PV):
    __slots__ = ('oid',)

    def __init__(self, oid):
        self.oid = oid

    def __repr__(self):
        return 'Ref(%d)' % self.oid

    def __eq__(self, o):
        return isinstance(o, Ref) and o.oid == self.oid

    def __hash__(self):
        return hash(('Ref', self.oid))


class FuncV(PV):
    """a modelled (external / builtin) callable: fn(I, st, ca) -> [(st, res)]"""
    __slots__ = ('name', 'fn', 'tag')

    def __init__(self, name, fn, tag=None):
        self.name = name
        self.fn = fn
        self.tag = tag

    def __repr__(self):
        return 'FuncV(%s)' % self.name


class BoundV(PV):
    """bound method of a heap object (model method or user-class method)"""
    __slots__ = ('recv', 'name')

    def __init__(self, recv, name):
        self.recv = recv
        self.name = name

    def __repr__(self):
        return 'BoundV(%r.%s)' % (self.recv, self.name)

    def __eq__(self, o):
        return isinstance(o, BoundV) and o.recv == self.recv and o.name == self.name

    def __hash__(self):
        return hash(('BoundV', self.name))


class ClosureV(PV):
    __slots__ = ('node', 'envid', 'cid', 'cls', 'defaults', 'kwdefaults')

    def __init__(self, node, envid, cid, cls=None, defaults=(), kwdefaults=None):
        self.node = node
        self.envid = envid
        self.cid = cid
        self.cls = cls
        self.defaults = defaults
        self.kwdefaults = kwdefaults or {}

    @property
    def name(self):
        return getattr(self.node, 'name', '<lambda>')

    def __repr__(self):
        return 'ClosureV(%s#%d)' % (self.name, self.cid)


class MethodV(PV):
    """user-class function bound to an instance"""
    __slots__ = ('func', 'self_')

    def __init__(self, func, self_):
        self.func = func
        self.self_ = self_

    def __repr__(self):
        return 'MethodV(%r of %r)' % (self.func, self.self_)


class ClassV(PV):
    """a class: user class (node set) or builtin (model)"""
    __slots__ = ('name', 'node', 'bases', 'ns', 'model', 'module')

    def __init__(self, name, node=None, bases=(), ns=None, model=None, module=None):
        self.name = name
        self.node = node
        self.bases = tuple(bases)
        self.ns = ns if ns is not None else {}
        self.model = model
        self.module = module

    def mro(self):
        out = [self]
        for b in self.bases:
            for c in b.mro():
                if c not in out:
                    out.append(c)
        return out

    def lookup(self, name):
        for c in self.mro():
            if name in c.ns:
                return c.ns[name], c
        return None, None

    def issub(self, other):
        return any(c is other or c.name == other.name for c in self.mro())

    def __repr__(self):
        return 'ClassV(%s)' % self.name


class PropertyV(PV):
    __slots__ = ('fget', 'fset')

    def __init__(self, fget, fset=None):
        self.fget = fget
        self.fset = fset


class ExcV(PV):
    """an exception instance value"""
    __slots__ = ('kind', 'args', 'term')

    def __init__(self, kind, args=(), term=None):
        self.kind = kind
        self.args = tuple(args)
        self.term = term

    def __repr__(self):
        return 'ExcV(%s)' % self.kind


class SeqV(PV):
    """immutable sequence of symbolic length: elem(i) -> PV, facts about it are in pc"""
    __slots__ = ('length', 'elem', 'tag', 'info')

    def __init__(self, length, elem, tag='', info=None):
        self.length = length
        self.elem = elem
        self.tag = tag
        self.info = info or {}

    def __repr__(self):
        return 'SeqV(%s,len=%s)' % (self.tag, self.length)


class ViewV(PV):
    """dict view / iterator wrappers that models understand: kind in keys/items/values/iter"""
    __slots__ = ('kind', 'base')

    def __init__(self, kind, base):
        self.kind = kind
        self.base = base

    def __repr__(self):
        return 'ViewV(%s,%r)' % (self.kind, self.base)


class ModuleV(PV):
    __slots__ = ('name',)

    def __init__(self, name):
        self.name = name


# ----------------------------------------------------------------------------
# exceptions / outcomes
# ----------------------------------------------------------------------------
EXC_BASES = {
    'BaseException': None, 'Exception': 'BaseException', 'LookupError': 'Exception',
    'KeyError': 'LookupError', 'IndexError': 'LookupError', 'TypeError': 'Exception',
    'ValueError': 'Exception', 'AttributeError': 'Exception', 'OSError': 'Exception',
    'FileNotFoundError': 'OSError', 'StopIteration': 'Exception', 'RuntimeError': 'Exception',
    'NotImplementedError': 'RuntimeError', 'NameError': 'Exception', 'AssertionError': 'Exception',
    'ArithmeticError': 'Exception', 'ZeroDivisionError': 'ArithmeticError',
    'ImportError': 'Exception', 'RecursionError': 'RuntimeError',
}
EXC_IDS = {n: i for i, n in enumerate(sorted(EXC_BASES))}


def exc_issub(kind, base):
    while kind is not None:
        if kind == base:
            return True
        kind = EXC_BASES.get(kind)
    return False


class Exc(object):
    """a raised exception: kind = class name, or None for an exception of unknown class
    (raised by the user function); term identifies the exception object."""

    def __init__(self, kind, term=None, payload=None, origin=''):
        self.kind = kind
        self.term = term if term is not None else fresh('exc', Val)
        self.payload = payload
        self.origin = origin

    def __repr__(self):
        return 'Exc(%s from %s)' % (self.kind or 'UserExc', self.origin)


SKIP = object()     # iterator-model result: element filtered out (acts like `continue`)

# statement outcomes
NEXT = ('next',)
BREAK = ('break',)
CONTINUE = ('continue',)


class CallArgs(object):
    __slots__ = ('pos', 'kw', 'star', 'dstar')

    def __init__(self, pos=(), kw=None, star=None, dstar=None):
        self.pos = list(pos)
        self.kw = dict(kw or {})
        self.star = star
        self.dstar = dstar

    def plain(self):
        return self.star is None and self.dstar is None

    def __repr__(self):
        return 'CallArgs(%r,%r,*%r,**%r)' % (self.pos, self.kw, self.star, self.dstar)


# ----------------------------------------------------------------------------
# state
# ----------------------------------------------------------------------------
class State(object):
    __slots__ = ('envs', 'parents', 'heap', 'pc', 'events', 'labels', 'fattrs',
                 'handling', 'ghost', 'depth')

    def __init__(self):
        self.envs = {}
        self.parents = {}
        self.heap = {}
        self.pc = []
        self.events = []
        self.labels = []
        self.fattrs = {}
        self.handling = []
        self.ghost = {}
        self.depth = 0

    def fork(self):
        s = State.__new__(State)
        s.envs = dict(self.envs)
        s.parents = self.parents           # append-only, shared by id allocation
        s.heap = dict(self.heap)
        s.pc = list(self.pc)
        s.events = list(self.events)
        s.labels = list(self.labels)
        s.fattrs = dict(self.fattrs)
        s.handling = list(self.handling)
        s.ghost = dict(self.ghost)
        s.depth = self.depth
        return s

    # environments -------------------------------------------------------
    def new_env(self, parent):
        eid = next(_counter)
        self.envs[eid] = {}
        self.parents = dict(self.parents)
        self.parents[eid] = parent
        return eid

    def lookup(self, eid, name):
        while eid is not None:
            env = self.envs[eid]
            if name in env:
                return env[name]
            eid = self.parents[eid]
        return None

    def bind(self, eid, name, value):
        env = dict(self.envs[eid])
        env[name] = value
        self.envs[eid] = env

    def unbind(self, eid, name):
        env = dict(self.envs[eid])
        env.pop(name, None)
        self.envs[eid] = env

    # heap ------------------------------------------------------------------
    def alloc(self, obj):
        oid = next(_counter)
        self.heap[oid] = obj
        return Ref(oid)

    def get(self, ref):
        return self.heap[ref.oid]

    def put(self, ref, obj):
        self.heap[ref.oid] = obj

    def assume(self, *conds):
        for c in conds:
            if c is True or (z3.is_bool(c) and z3.is_true(c)):
                continue
            self.pc.append(c)

    def label(self, s):
        self.labels.append(s)


# ----------------------------------------------------------------------------
# name mangling of private class attributes (Python semantics)
# ----------------------------------------------------------------------------
class _Mangler(ast.NodeTransformer):
    def __init__(self, clsname):
        self.prefix = '_' + clsname.lstrip('_')

    def _m(self, name):
        if name.startswith('__') and not name.endswith('__') and '.' not in name:
            return self.prefix + name
        return name

    def visit_Name(self, node):
        node.id = self._m(node.id)
        return node

    def visit_Attribute(self, node):
        self.generic_visit(node)
        node.attr = self._m(node.attr)
        return node

    def visit_FunctionDef(self, node):
        node.name = self._m(node.name)
        self.generic_visit(node)
        return node

    def visit_arg(self, node):
        node.arg = self._m(node.arg)
        return node

    def visit_ClassDef(self, node):
        # nested classes mangle with their own name
        return node


def mangle_class(node):
    m = _Mangler(node.name)
    for i, s in enumerate(node.body):
        node.body[i] = m.visit(s)
    return node


# ----------------------------------------------------------------------------
# interpreter
# ----------------------------------------------------------------------------
class LoopSpec(object):
    """sidecar loop contract: invariant(ctx) -> [(name, z3 Bool)]; keyed by loop ordinal"""

    def __init__(self, invariant, havoc=None, name=''):
        self.invariant = invariant
        self.havoc = havoc          # optional: fn(I, st, entry) -> None, custom havoc of heap objects
        self.name = name


class LoopCtx(object):
    def __init__(self, I, st, entry, fnpre, idx=None, seq=None, extra=None, eid=None, node=None):
        self.I = I
        self.eid = eid
        self.node = node
        self.st = st
        self.entry = entry
        self.fnpre = fnpre
        self.idx = idx
        self.seq = seq
        self.extra = extra or {}


class Obligation(object):
    """pc => goal, to be discharged (unsat of pc & not goal)"""

    def __init__(self, name, pc, goal, kind='clause', prop=None, path=None, func=None, info=None, cuts=()):
        self.name = name
        self.cuts = tuple(cuts)
        self.pc = list(pc)
        self.goal = goal
        self.kind = kind
        self.prop = prop
        self.path = path
        self.func = func
        self.info = info or {}


class Interp(object):
    MAX_DEPTH = 12

    def __init__(self, builtins, axioms=None, prune=True):
        self.builtins = builtins            # name -> PV
        self.axioms = list(axioms or [])    # global z3 facts (assumed contracts)
        self.modules = {}                   # modname -> env id (in template state)
        self.loopspecs = {}                 # (funcqual, ordinal) -> LoopSpec
        self.obligations = []               # side obligations (loop invariants, asserts)
        self.cur_func = None
        self.fn_pre = None
        self.prune = prune
        self._solver = None
        self.externals = {}                 # (module, name) -> PV  for import statements
        self.unsupported = []
        self.stats = {'paths': 0, 'prune_checks': 0, 'pruned': 0}
        self.path_prefix = ''
        self.loopspec_resolver = None

    # ---- pruning (only ever on a solver 'unsat' answer) ----------------------
    def _unsat(self, conds):
        """quantifier-free part of the path condition only, under a deterministic resource limit:
        dropping premises or giving up early can only lose prunings, never make one wrong"""
        s = z3.Solver()
        s.set('rlimit', PRUNE_RLIMIT)
        for c in conds:
            if not _has_quantifier(c):
                s.add(c)
        self.stats['prune_checks'] += 1
        return s.check() == z3.unsat

    def decide(self, st, cond):
        """True/False if cond is decided by simplification or by pc (proved), else None"""
        c = z3.simplify(cond)
        if z3.is_true(c):
            return True
        if z3.is_false(c):
            return False
        for p in st.pc:
            if p.eq(c) or p.eq(cond):
                return True
            if z3.is_not(p) and (p.arg(0).eq(c) or p.arg(0).eq(cond)):
                return False
            if z3.is_not(c) and p.eq(c.arg(0)):
                return False
        if self.prune:
            if self._unsat(st.pc + [c]):
                self.stats['pruned'] += 1
                return False
            if self._unsat(st.pc + [z3.Not(c)]):
                self.stats['pruned'] += 1
                return True
        return None

    def branch(self, st, cond, tlabel=None, flabel=None):
        """-> list of (state, bool)"""
        d = self.decide(st, cond)
        if d is True:
            return [(st, True)]
        if d is False:
            return [(st, False)]
        s1 = st.fork()
        s1.assume(cond)
        if tlabel:
            s1.label(tlabel)
        s2 = st.fork()
        s2.assume(z3.Not(cond))
        if flabel:
            s2.label(flabel)
        return [(s1, True), (s2, False)]

    # ---- conversions ----------------------------------------------------------
    def to_val(self, pv, node=None):
        if isinstance(pv, Opaque):
            return pv.term
        if isinstance(pv, IntV):
            return BoxInt(pv.term)
        if isinstance(pv, BoolV):
            return BoxBool(pv.term)
        if isinstance(pv, NoneV):
            return NoneC
        if isinstance(pv, StrV):
            return self.str_const(pv.s)
        if isinstance(pv, Ref):
            return self.ref_const(pv)
        if isinstance(pv, FuncV) and getattr(pv, 'term', None) is not None:
            return pv.term
        raise Unsupported('cannot box %r as an object term' % (pv,), node)

    _strs = {}
    _refs = {}

    def str_const(self, s):
        if s not in self._strs:
            self._strs[s] = z3.Const('str_%d' % len(self._strs), Val)
        return self._strs[s]

    def ref_const(self, ref):
        if ref.oid not in self._refs:
            self._refs[ref.oid] = z3.Const('obj_%d' % ref.oid, Val)
        return self._refs[ref.oid]

    def truth(self, st, pv, node=None):
        """-> z3 Bool for bool(pv) (no forking; opaque objects use Truthy)"""
        if isinstance(pv, BoolV):
            return pv.term
        if isinstance(pv, IntV):
            return pv.term != 0
        if isinstance(pv, NoneV):
            return z3.BoolVal(False)
        if isinstance(pv, StrV):
            return z3.BoolVal(bool(pv.s))
        if isinstance(pv, TupleV):
            return z3.BoolVal(bool(pv.items))
        if isinstance(pv, Opaque):
            return Truthy(pv.term)
        if isinstance(pv, Ref):
            obj = st.get(pv)
            if hasattr(obj, 'truth'):
                return obj.truth(self, st, pv)
            return z3.BoolVal(True)
        if isinstance(pv, (FuncV, BoundV, ClosureV, ClassV, MethodV)):
            return z3.BoolVal(True)
        if isinstance(pv, SeqV):
            return pv.length > 0
        raise Unsupported('truth value of %r' % (pv,), node)

    # ---- module loading ---------------------------------------------------------
    def load_module(self, st, modname, tree):
        """execute a module's top-level defs/imports/assignments into a fresh env"""
        eid = st.new_env(None)
        self.modules[modname] = eid
        st.bind(eid, '__name__', StrV(modname))
        for stmt in tree.body:
            if isinstance(stmt, ast.Expr) and isinstance(stmt.value, ast.Constant):
                continue  # docstring
            if isinstance(stmt, ast.If) and _is_main_guard(stmt):
                continue
            try:
                outs = self.exec_stmt(st, eid, stmt)
            except Unsupported as e:
                # module-level statements we cannot execute leave their targets unbound;
                # a later use of such a name fails closed with Unsupported('unbound name')
                self.unsupported.append(('module %s' % modname, str(e)))
                continue
            if len(outs) != 1 or outs[0][1] is not NEXT:
                self.unsupported.append(('module %s' % modname,
                                         'top-level statement at line %d forks or raises' % stmt.lineno))
                continue
            st2 = outs[0][0]
            # adopt the successor state in place
            for f in State.__slots__:
                setattr(st, f, getattr(st2, f))
        return eid

    # ---- statements -----------------------------------------------------------------
    def exec_block(self, st, eid, stmts):
        """-> [(state, outcome)] outcome in NEXT/BREAK/CONTINUE/('return',pv)/('raise',Exc)"""
        results = []
        work = [(st, 0)]
        while work:
            s, i = work.pop()
            if i >= len(stmts):
                results.append((s, NEXT))
                continue
            for (s2, out) in self.exec_stmt(s, eid, stmts[i]):
                if out is NEXT:
                    work.append((s2, i + 1))
                else:
                    results.append((s2, out))
        return results

    def exec_stmt(self, st, eid, node):
        m = getattr(self, 'x_' + node.__class__.__name__, None)
        if m is None:
            raise Unsupported('statement %s' % node.__class__.__name__, node)
        return m(st, eid, node)

    def x_Pass(self, st, eid, node):
        return [(st, NEXT)]

    def x_Break(self, st, eid, node):
        return [(st, BREAK)]

    def x_Continue(self, st, eid, node):
        return [(st, CONTINUE)]

    def x_Global(self, st, eid, node):
        raise Unsupported('global statement', node)

    def x_Nonlocal(self, st, eid, node):
        raise Unsupported('nonlocal statement', node)

    def x_Expr(self, st, eid, node):
        if isinstance(node.value, ast.Constant):
            return [(st, NEXT)]
        out = []
        for (s, v) in self.eval(st, eid, node.value):
            out.append((s, ('raise', v) if isinstance(v, Exc) else NEXT))
        return out

    def x_Return(self, st, eid, node):
        if node.value is None:
            return [(st, ('return', NONE))]
        out = []
        for (s, v) in self.eval(st, eid, node.value):
            out.append((s, ('raise', v) if isinstance(v, Exc) else ('return', v)))
        return out

    def x_Assign(self, st, eid, node):
        out = []
        for (s, v) in self.eval(st, eid, node.value):
            if isinstance(v, Exc):
                out.append((s, ('raise', v)))
                continue
            states = [(s, None)]
            for tgt in node.targets:
                nxt = []
                for (s1, e1) in states:
                    if e1 is not None:
                        nxt.append((s1, e1))
                        continue
                    nxt.extend(self.assign(s1, eid, tgt, v))
                states = nxt
            for (s1, e1) in states:
                out.append((s1, ('raise', e1) if e1 is not None else NEXT))
        return out

    def x_AnnAssign(self, st, eid, node):
        if node.value is None:
            return [(st, NEXT)]
        fake = ast.Assign(targets=[node.target], value=node.value)
        ast.copy_location(fake, node)
        return self.x_Assign(st, eid, fake)

    def assign(self, st, eid, tgt, v):
        """-> [(state, Exc|None)]"""
        if isinstance(tgt, ast.Name):
            st = st.fork()
            st.bind(eid, tgt.id, v)
            return [(st, None)]
        if isinstance(tgt, (ast.Tuple, ast.List)):
            if any(isinstance(e, ast.Starred) for e in tgt.elts):
                raise Unsupported('starred assignment target', tgt)
            n = len(tgt.elts)
            out = []
            for (s, items) in self.unpack(st, v, n, tgt):
                if isinstance(items, Exc):
                    out.append((s, items))
                    continue
                states = [(s, None)]
                for e, item in zip(tgt.elts, items):
                    nxt = []
                    for (s1, e1) in states:
                        if e1 is not None:
                            nxt.append((s1, e1))
                        else:
                            nxt.extend(self.assign(s1, eid, e, item))
                    states = nxt
                out.extend(states)
            return out
        if isinstance(tgt, ast.Subscript):
            out = []
            for (s, o) in self.eval(st, eid, tgt.value):
                if isinstance(o, Exc):
                    out.append((s, o))
                    continue
                if isinstance(tgt.slice, ast.Slice):
                    out.extend(self.set_slice(s, eid, o, tgt.slice, v, tgt))
                    continue
                for (s1, k) in self.eval(s, eid, tgt.slice):
                    if isinstance(k, Exc):
                        out.append((s1, k))
                        continue
                    for (s2, r) in self.setitem(s1, o, k, v, tgt):
                        out.append((s2, r if isinstance(r, Exc) else None))
            return out
        if isinstance(tgt, ast.Attribute):
            out = []
            for (s, o) in self.eval(st, eid, tgt.value):
                if isinstance(o, Exc):
                    out.append((s, o))
                    continue
                for (s1, r) in self.setattr(s, o, tgt.attr, v, tgt):
                    out.append((s1, r if isinstance(r, Exc) else None))
            return out
        raise Unsupported('assignment target %s' % tgt.__class__.__name__, tgt)

    def unpack(self, st, v, n, node):
        """-> [(state, tuple of n PVs | Exc)]"""
        if isinstance(v, TupleV):
            if len(v.items) != n:
                return [(st, Exc('ValueError', origin='unpack'))]
            return [(st, v.items)]
        if isinstance(v, Ref):
            obj = st.get(v)
            if hasattr(obj, 'unpack'):
                return obj.unpack(self, st, v, n, node)
        raise Unsupported('unpacking of %r' % (v,), node)

    def set_slice(self, st, eid, o, sl, v, node):
        if sl.lower is None and sl.upper is None and sl.step is None and isinstance(o, Ref):
            obj = st.get(o)
            if hasattr(obj, 'set_all'):
                return [(s, None if not isinstance(r, Exc) else r)
                        for (s, r) in obj.set_all(self, st, o, v, node)]
        raise Unsupported('slice assignment', node)

    def x_AugAssign(self, st, eid, node):
        tgt = node.target
        out = []
        if isinstance(tgt, ast.Name):
            cur = self.eval(st, eid, ast.copy_location(ast.Name(id=tgt.id, ctx=ast.Load()), tgt))
            for (s, a) in cur:
                if isinstance(a, Exc):
                    out.append((s, ('raise', a)))
                    continue
                for (s1, b) in self.eval(s, eid, node.value):
                    if isinstance(b, Exc):
                        out.append((s1, ('raise', b)))
                        continue
                    for (s2, r) in self.binop(s1, node.op, a, b, node):
                        if isinstance(r, Exc):
                            out.append((s2, ('raise', r)))
                        else:
                            s3 = s2.fork()
                            s3.bind(eid, tgt.id, r)
                            out.append((s3, NEXT))
            return out
        if isinstance(tgt, ast.Subscript):
            for (s, o) in self.eval(st, eid, tgt.value):
                if isinstance(o, Exc):
                    out.append((s, ('raise', o)))
                    continue
                for (s1, k) in self.eval(s, eid, tgt.slice):
                    if isinstance(k, Exc):
                        out.append((s1, ('raise', k)))
                        continue
                    for (s2, a) in self.getitem(s1, o, k, tgt):
                        if isinstance(a, Exc):
                            out.append((s2, ('raise', a)))
                            continue
                        for (s3, b) in self.eval(s2, eid, node.value):
                            if isinstance(b, Exc):
                                out.append((s3, ('raise', b)))
                                continue
                            for (s4, r) in self.binop(s3, node.op, a, b, node):
                                if isinstance(r, Exc):
                                    out.append((s4, ('raise', r)))
                                    continue
                                for (s5, r2) in self.setitem(s4, o, k, r, tgt):
                                    out.append((s5, ('raise', r2) if isinstance(r2, Exc) else NEXT))
            return out
        if isinstance(tgt, ast.Attribute):
            for (s, o) in self.eval(st, eid, tgt.value):
                if isinstance(o, Exc):
                    out.append((s, ('raise', o)))
                    continue
                for (s2, a) in self.getattr(s, o, tgt.attr, tgt):
                    if isinstance(a, Exc):
                        out.append((s2, ('raise', a)))
                        continue
                    for (s3, b) in self.eval(s2, eid, node.value):
                        if isinstance(b, Exc):
                            out.append((s3, ('raise', b)))
                            continue
                        for (s4, r) in self.binop(s3, node.op, a, b, node):
                            if isinstance(r, Exc):
                                out.append((s4, ('raise', r)))
                                continue
                            for (s5, r2) in self.setattr(s4, o, tgt.attr, r, tgt):
                                out.append((s5, ('raise', r2) if isinstance(r2, Exc) else NEXT))
            return out
        raise Unsupported('augmented assignment target', node)

    def x_Delete(self, st, eid, node):
        states = [(st, NEXT)]
        for tgt in node.targets:
            nxt = []
            for (s, o) in states:
                if o is not NEXT:
                    nxt.append((s, o))
                    continue
                if isinstance(tgt, ast.Subscript):
                    for (s1, ob) in self.eval(s, eid, tgt.value):
                        if isinstance(ob, Exc):
                            nxt.append((s1, ('raise', ob)))
                            continue
                        for (s2, k) in self.eval(s1, eid, tgt.slice):
                            if isinstance(k, Exc):
                                nxt.append((s2, ('raise', k)))
                                continue
                            for (s3, r) in self.delitem(s2, ob, k, tgt):
                                nxt.append((s3, ('raise', r) if isinstance(r, Exc) else NEXT))
                elif isinstance(tgt, ast.Name):
                    s1 = s.fork()
                    s1.unbind(eid, tgt.id)
                    nxt.append((s1, NEXT))
                else:
                    raise Unsupported('del target', tgt)
            states = nxt
        return states

    def x_If(self, st, eid, node):
        out = []
        for (s, c) in self.eval_cond(st, eid, node.test):
            if isinstance(c, Exc):
                out.append((s, ('raise', c)))
                continue
            out.extend(self.exec_block(s, eid, node.body if c else node.orelse))
        return out

    def eval_cond(self, st, eid, test):
        """-> [(state, True|False|Exc)] (forks)"""
        out = []
        if isinstance(test, ast.BoolOp):
            # short-circuit, left to right
            isand = isinstance(test.op, ast.And)
            states = [(st, None)]
            for i, sub in enumerate(test.values):
                nxt = []
                for (s, decided) in states:
                    if decided is not None:
                        nxt.append((s, decided))
                        continue
                    for (s1, c) in self.eval_cond(s, eid, sub):
                        if isinstance(c, Exc):
                            nxt.append((s1, c))
                        elif isand and not c:
                            nxt.append((s1, False))
                        elif (not isand) and c:
                            nxt.append((s1, True))
                        elif i == len(test.values) - 1:
                            nxt.append((s1, c))
                        else:
                            nxt.append((s1, None))
                states = nxt
            return states
        if isinstance(test, ast.UnaryOp) and isinstance(test.op, ast.Not):
            for (s, c) in self.eval_cond(st, eid, test.operand):
                out.append((s, c if isinstance(c, Exc) else (not c)))
            return out
        for (s, v) in self.eval(st, eid, test):
            if isinstance(v, Exc):
                out.append((s, v))
                continue
            for (s1, t) in self.truth_fork(s, v, test):
                out.append((s1, t))
        return out

    def truth_fork(self, st, v, node=None):
        """-> [(state, bool|Exc)]"""
        if isinstance(v, Ref):
            obj = st.get(v)
            if hasattr(obj, 'truth_call'):
                out = []
                for (s, r) in obj.truth_call(self, st, v, node):
                    if isinstance(r, Exc):
                        out.append((s, r))
                    else:
                        out.extend(self.truth_fork(s, r, node))
                return out
        t = self.truth(st, v, node)
        return [(s, b) for (s, b) in self.branch(st, t)]

    def x_Assert(self, st, eid, node):
        out = []
        for (s, c) in self.eval_cond(st, eid, node.test):
            if isinstance(c, Exc):
                out.append((s, ('raise', c)))
            elif c:
                out.append((s, NEXT))
            else:
                out.append((s, ('raise', Exc('AssertionError', origin='assert'))))
        return out

    def x_Raise(self, st, eid, node):
        if node.exc is None:
            if not st.handling:
                return [(st, ('raise', Exc('RuntimeError', origin='bare raise')))]
            return [(st, ('raise', st.handling[-1]))]
        out = []
        for (s, v) in self.eval(st, eid, node.exc):
            if isinstance(v, Exc):
                out.append((s, ('raise', v)))
                continue
            if isinstance(v, ClassV) and v.name in EXC_BASES:
                out.append((s, ('raise', Exc(v.name, origin='raise'))))
            elif isinstance(v, ExcV):
                if node.cause is not None:
                    # `raise e from c` rewrites e.__cause__ / __suppress_context__: what propagates is no longer the exception
                    # as it was raised (a different object term; the class is kept)
                    out.append((s, ('raise', Exc(v.kind, term=fresh('exc_recaused', Val), payload=v.args, origin='raise from'))))
                else:
                    out.append((s, ('raise', Exc(v.kind, term=v.term, payload=v.args, origin='raise'))))
            else:
                raise Unsupported('raise of %r' % (v,), node)
        return out

    def x_Try(self, st, eid, node):
        results = []
        body_outs = self.exec_block(st, eid, node.body)
        after_handlers = []
        for (s, o) in body_outs:
            if o is NEXT:
                if node.orelse:
                    after_handlers.extend(self.exec_block(s, eid, node.orelse))
                else:
                    after_handlers.append((s, o))
            elif o[0] == 'raise':
                after_handlers.extend(self._handle(s, eid, node, o[1]))
            else:
                after_handlers.append((s, o))
        if not node.finalbody:
            return after_handlers
        for (s, o) in after_handlers:
            for (s1, o1) in self.exec_block(s, eid, node.finalbody):
                results.append((s1, o if o1 is NEXT else o1))
        return results

    def _handle(self, st, eid, node, exc):
        """dispatch a raised exception to the handlers of a try statement"""
        out = []
        pending = [st]
        for h in node.handlers:
            nxt = []
            for s in pending:
                for (s1, m) in self._match(s, eid, h, exc):
                    if isinstance(m, Exc):       # evaluating the handler type raised
                        out.append((s1, ('raise', m)))
                    elif m:
                        s2 = s1.fork()
                        if h.name:
                            s2.bind(eid, h.name, ExcV(exc.kind, exc.payload or (), exc.term))
                        s2.handling = s2.handling + [exc]
                        for (s3, o3) in self.exec_block(s2, eid, h.body):
                            s3.handling = s3.handling[:-1] if s3.handling else []
                            out.append((s3, o3))
                    else:
                        nxt.append(s1)
            pending = nxt
        for s in pending:
            out.append((s, ('raise', exc)))
        return out

    def _match(self, st, eid, h, exc):
        """-> [(state, bool|Exc)]"""
        if h.type is None:
            return [(st, True)]
        out = []
        for (s, t) in self.eval(st, eid, h.type):
            if isinstance(t, Exc):
                out.append((s, t))
                continue
            classes = t.items if isinstance(t, TupleV) else (t,)
            names = []
            for c in classes:
                if isinstance(c, ClassV) and c.name in EXC_BASES:
                    names.append(c.name)
                else:
                    raise Unsupported('except clause with %r' % (c,), h)
            if exc.kind is not None:
                out.append((s, any(exc_issub(exc.kind, n) for n in names)))
            else:
                # exception of unknown class (from the user function)
                if any(n in ('BaseException', 'Exception') for n in names):
                    # a user exception may still be a BaseException that is not an Exception
                    cond = z3.Or(*[ExcIsInst(exc.term, EXC_IDS[n]) for n in names])
                else:
                    cond = z3.Or(*[ExcIsInst(exc.term, EXC_IDS[n]) for n in names])
                for (s1, b) in self.branch(s, cond):
                    out.append((s1, b))
        return out

    def x_FunctionDef(self, st, eid, node, cls=None, closure_env=None):
        # closure_env: scope the body closes over when it differs from the scope the name is bound in
        # (methods: the name is bound in the class namespace, the body sees the enclosing scope only)
        if node.decorator_list:
            # decorators are applied by calling them
            pass
        defaults = []
        s = st
        for d in node.args.defaults:
            r = self.eval(s, eid, d)
            if len(r) != 1 or isinstance(r[0][1], Exc):
                raise Unsupported('default value forks or raises', d)
            s, v = r[0]
            defaults.append(v)
        kwdefaults = {}
        for a, d in zip(node.args.kwonlyargs, node.args.kw_defaults):
            if d is not None:
                r = self.eval(s, eid, d)
                if len(r) != 1 or isinstance(r[0][1], Exc):
                    raise Unsupported('default value forks or raises', d)
                s, v = r[0]
                kwdefaults[a.arg] = v
        s = s.fork()
        f = ClosureV(node, eid if closure_env is None else closure_env, next(_counter), cls, tuple(defaults), kwdefaults)
        val = f
        for dec in reversed(node.decorator_list):
            r = self.eval(s, eid, dec)
            if len(r) != 1 or isinstance(r[0][1], Exc):
                raise Unsupported('decorator forks or raises', dec)
            s, d = r[0]
            r = self.call(s, d, CallArgs([val]), dec)
            if len(r) != 1 or isinstance(r[0][1], Exc):
                raise Unsupported('decorator application forks or raises', dec)
            s, val = r[0]
        s.bind(eid, node.name, val)
        return [(s, NEXT)]

    def x_ClassDef(self, st, eid, node):
        if node.decorator_list or node.keywords:
            raise Unsupported('class decorators/keywords', node)
        node = mangle_class(_copy_tree(node))
        bases = []
        s = st
        for b in node.bases:
            r = self.eval(s, eid, b)
            if len(r) != 1 or isinstance(r[0][1], Exc):
                raise Unsupported('class base forks or raises', b)
            s, v = r[0]
            if not isinstance(v, ClassV):
                raise Unsupported('class base is not a class: %r' % (v,), b)
            bases.append(v)
        s = s.fork()
        ceid = s.new_env(eid)
        cls = ClassV(node.name, node, bases, {}, None, None)
        for stmt in node.body:
            if isinstance(stmt, ast.Expr) and isinstance(stmt.value, ast.Constant):
                continue
            try:
                if isinstance(stmt, ast.FunctionDef):
                    outs = self.x_FunctionDef(s, ceid, stmt, cls, closure_env=eid)
                else:
                    outs = self.exec_stmt(s, ceid, stmt)
            except Unsupported as e:
                self.unsupported.append(('class %s' % node.name, str(e)))
                continue
            if len(outs) != 1 or outs[0][1] is not NEXT:
                self.unsupported.append(('class %s' % node.name, 'class-body statement forks'))
                continue
            s = outs[0][0]
        cls.ns = dict(s.envs[ceid])
        s.bind(eid, node.name, cls)
        return [(s, NEXT)]

    def x_Import(self, st, eid, node):
        s = st.fork()
        for a in node.names:
            name = a.asname or a.name.split('.')[0]
            key = (a.name, None)
            if key in self.externals:
                s.bind(eid, name, self.externals[key])
            else:
                s.bind(eid, name, ModuleV(a.name))
        return [(s, NEXT)]

    def x_ImportFrom(self, st, eid, node):
        s = st.fork()
        mod = ('.' * node.level) + (node.module or '')
        for a in node.names:
            name = a.asname or a.name
            v = self.resolve_import(mod, a.name)
            if v is None:
                # unresolved external: binding is deferred; use fails closed
                v = FuncV('%s.%s' % (mod, a.name), _unmodelled('%s.%s' % (mod, a.name)))
            s.bind(eid, name, v)
        return [(s, NEXT)]

    def resolve_import(self, mod, name):
        for key in ((mod, name), (mod.lstrip('.'), name), ('klepto.' + mod.lstrip('.'), name)):
            if key in self.externals:
                return self.externals[key]
        return None

    # ---- loops --------------------------------------------------------------------
    def _fnpre(self, st):
        # the state a loop contract refers to as "before this call's own bookkeeping": the function's pre-state, or
        # -- when a callee may have re-entered -- the state it left behind (kept per path in the ghost store)
        return st.ghost.get('fnpre') or self.fn_pre

    def _loopspec(self, node):
        key = (self.cur_func, getattr(node, '_loop_ordinal', None))
        spec = self.loopspecs.get(key)
        if spec is None and self.loopspec_resolver is not None:
            # sidecar contracts may also be attached by the *shape* of the loop (kind of statement,
            # what it iterates over): robust against reordering of independent blocks
            spec = self.loopspec_resolver(self.cur_func, node)
        return spec

    def x_While(self, st, eid, node):
        spec = self._loopspec(node)
        if spec is None:
            raise Unsupported('while loop without invariant (loop #%s of %s)' %
                              (getattr(node, '_loop_ordinal', '?'), self.cur_func), node)
        return self._loop(st, eid, node, spec, kind='while')

    def x_For(self, st, eid, node):
        out = []
        for (s, it) in self.eval(st, eid, node.iter):
            if isinstance(it, Exc):
                out.append((s, ('raise', it)))
                continue
            out.extend(self._for_over(s, eid, node, it))
        return out

    def _for_over(self, st, eid, node, it):
        # statically known length: unroll
        if isinstance(it, TupleV):
            return self._unroll(st, eid, node, list(it.items))
        if isinstance(it, Ref):
            obj = st.get(it)
            if hasattr(obj, 'static_items'):
                items = obj.static_items(self, st, it)
                if items is not None:
                    return self._unroll(st, eid, node, items)
            if hasattr(obj, 'as_seq'):
                it = obj.as_seq(self, st, it, node)
        if isinstance(it, ViewV) and it.kind == 'iter':
            it = it.base
        spec = self._loopspec(node)
        if spec is None:
            raise Unsupported('for loop without invariant (loop #%s of %s) over %r' %
                              (getattr(node, '_loop_ordinal', '?'), self.cur_func, it), node)
        if isinstance(it, SeqV):
            return self._loop(st, eid, node, spec, kind='forseq', seq=it)
        if isinstance(it, FuncV) and it.tag and it.tag[0] == 'nextfn':
            # iterator protocol through a model "next" function: it.tag = ('nextfn', fn)
            return self._loop(st, eid, node, spec, kind='foriter', seq=it)
        raise Unsupported('for loop over %r' % (it,), node)

    def _unroll(self, st, eid, node, items):
        states = [(st, NEXT)]
        for item in items:
            nxt = []
            for (s, o) in states:
                if o is not NEXT:
                    nxt.append((s, o))
                    continue
                for (s1, e1) in self.assign(s, eid, node.target, item):
                    if e1 is not None:
                        nxt.append((s1, ('raise', e1)))
                        continue
                    for (s2, o2) in self.exec_block(s1, eid, node.body):
                        if o2 is BREAK:
                            nxt.append((s2, BREAK))
                        elif o2 is CONTINUE or o2 is NEXT:
                            nxt.append((s2, NEXT))
                        else:
                            nxt.append((s2, o2))
            states = nxt
        out = []
        for (s, o) in states:
            if o is BREAK:
                out.append((s, NEXT))
            elif o is NEXT and node.orelse:
                out.extend(self.exec_block(s, eid, node.orelse))
            else:
                out.append((s, o))
        return out

    def _assigned_names(self, node):
        names = set()
        for n in ast.walk(node):
            if isinstance(n, ast.Name) and isinstance(n.ctx, (ast.Store, ast.Del)):
                names.add(n.id)
        return names

    def _loop(self, st, eid, node, spec, kind, seq=None):
        """invariant-based loop rule: establish, havoc, assume, body, re-establish; exit"""
        fq = self.cur_func
        ordinal = getattr(node, '_loop_ordinal', '?')
        tag = '%s/loop%s' % (fq, ordinal)
        entry = st.fork()
        idx0 = IntV(0) if kind == 'forseq' else None
        # 1. invariant holds on entry
        ctx = LoopCtx(self, st, entry, self._fnpre(st), idx=idx0.term if idx0 else None, seq=seq, eid=eid, node=node)
        try:
            inv0 = spec.invariant(ctx)
        except Unsupported:
            raise
        except Exception as e:
            raise Unsupported('loop contract %r does not fit loop #%s of %s (%s: %s)' %
                              (spec.name, ordinal, fq, e.__class__.__name__, e), node)
        for (nm, g) in inv0:
            self.obligations.append(Obligation('%s/%s@entry' % (tag, nm), st.pc, g, kind='loop-entry',
                                               func=fq, path=self.path_prefix + '/'.join(st.labels)))
        # 2. havoc everything the loop may modify
        h = st.fork()
        h.label('loop%s' % ordinal)
        # cut point: premises before a loop havoc form a self-contained prefix of the path condition
        h.ghost['cuts'] = tuple(h.ghost.get('cuts', ())) + (len(h.pc),)
        modified = self._assigned_names(node)
        for nm in sorted(modified):
            cur = h.lookup(eid, nm)
            if nm in h.envs[eid] or cur is None:
                hv = self.havoc_like(h, cur, nm)
                if hv is not None:
                    h.bind(eid, nm, hv)
                else:
                    h.unbind(eid, nm)
        if spec.havoc is not None:
            spec.havoc(self, h, entry)
        else:
            self.havoc_heap(h)
        idx = fresh('i', INT) if kind == 'forseq' else None
        ctx_h = LoopCtx(self, h, entry, self._fnpre(h), idx=idx, seq=seq, eid=eid, node=node)
        if idx is not None:
            h.assume(idx >= 0, idx <= seq.length)
        for (nm, g) in spec.invariant(ctx_h):
            h.assume(g)
        results = []
        # 3. one iteration from an arbitrary invariant state, or exit
        if kind == 'while':
            for (s, c) in self.eval_cond(h, eid, node.test):
                if isinstance(c, Exc):
                    results.append((s, ('raise', c)))
                elif c:
                    self._loop_body(s, eid, node, spec, entry, tag, None, seq, results)
                else:
                    results.append((s, 'EXIT'))
        elif kind == 'forseq':
            for (s, more) in self.branch(h, idx < seq.length):
                if more:
                    item = seq.elem(idx)
                    for (s1, e1) in self.assign(s, eid, node.target, item):
                        if e1 is not None:
                            results.append((s1, ('raise', e1)))
                            continue
                        self._loop_body(s1, eid, node, spec, entry, tag, idx + 1, seq, results)
                else:
                    results.append((s, 'EXIT'))
        elif kind == 'foriter':
            nextfn = seq.tag[1]
            for (s, item) in nextfn(self, h):
                if item is SKIP:
                    ctx2 = LoopCtx(self, s, entry, self._fnpre(s), idx=None, seq=seq, eid=eid, node=node)
                    for (nm, g) in spec.invariant(ctx2):
                        self.obligations.append(Obligation('%s/%s@step' % (tag, nm), s.pc, g, kind='loop-step',
                                                           func=self.cur_func,
                                                           path=self.path_prefix + '/'.join(s.labels + ['skip'])))
                    continue
                if isinstance(item, Exc):
                    if item.kind == 'StopIteration':
                        results.append((s, 'EXIT'))
                    else:
                        results.append((s, ('raise', item)))
                    continue
                for (s1, e1) in self.assign(s, eid, node.target, item):
                    if e1 is not None:
                        results.append((s1, ('raise', e1)))
                        continue
                    self._loop_body(s1, eid, node, spec, entry, tag, None, seq, results)
        # normal exhaustion of the loop runs the else-block; `break` (recorded as NEXT) skips it
        out = []
        for (s, o) in results:
            if o == 'EXIT':
                if node.orelse:
                    out.extend(self.exec_block(s, eid, node.orelse))
                else:
                    out.append((s, NEXT))
            else:
                out.append((s, o))
        return out

    def _loop_body(self, s, eid, node, spec, entry, tag, idx_next, seq, results):
        for (s2, o2) in self.exec_block(s, eid, node.body):
            if o2 is NEXT or o2 is CONTINUE:
                ctx2 = LoopCtx(self, s2, entry, self._fnpre(s2), idx=idx_next, seq=seq, eid=eid, node=node)
                for (nm, g) in spec.invariant(ctx2):
                    self.obligations.append(Obligation('%s/%s@step' % (tag, nm), s2.pc, g, kind='loop-step',
                                                       func=self.cur_func,
                                                       path=self.path_prefix + '/'.join(s2.labels)))
                # the iteration ends here; continuation is covered by the havoc state
            elif o2 is BREAK:
                results.append((s2, NEXT))
            else:
                results.append((s2, o2))

    def havoc_like(self, st, cur, name):
        if cur is None:
            return None
        if isinstance(cur, Opaque):
            return Opaque(fresh(name, Val))
        if isinstance(cur, IntV):
            return IntV(fresh(name, INT))
        if isinstance(cur, BoolV):
            return BoolV(fresh(name, BOOL))
        if isinstance(cur, (Ref, FuncV, BoundV, ClosureV, ClassV, NoneV, StrV)):
            return cur   # rebinding to a different object inside loops is not supported -> checked below
        if isinstance(cur, TupleV):
            return TupleV([self.havoc_like(st, x, name) for x in cur.items])
        raise Unsupported('cannot havoc loop variable %s=%r' % (name, cur))

    def havoc_heap(self, st):
        for oid, obj in list(st.heap.items()):
            if hasattr(obj, 'havoc'):
                st.heap[oid] = obj.havoc(self, st)

    # ---- with -----------------------------------------------------------------------
    def x_With(self, st, eid, node):
        if len(node.items) != 1:
            raise Unsupported('with: multiple items', node)
        item = node.items[0]
        out = []
        for (s, cm) in self.eval(st, eid, item.context_expr):
            if isinstance(cm, Exc):
                out.append((s, ('raise', cm)))
                continue
            for (s1, v) in self.call_method(s, cm, '__enter__', CallArgs(), node):
                if isinstance(v, Exc):
                    out.append((s1, ('raise', v)))
                    continue
                states = [(s1, None)]
                if item.optional_vars is not None:
                    states = self.assign(s1, eid, item.optional_vars, v)
                for (s2, e2) in states:
                    if e2 is not None:
                        out.append((s2, ('raise', e2)))
                        continue
                    for (s3, o3) in self.exec_block(s2, eid, node.body):
                        for (s4, r4) in self.call_method(s3, cm, '__exit__',
                                                         CallArgs([NONE, NONE, NONE]), node):
                            if isinstance(r4, Exc):
                                out.append((s4, ('raise', r4)))
                            else:
                                out.append((s4, o3))
        return out

    # ---- expressions -----------------------------------------------------------------
    def eval(self, st, eid, node):
        """-> [(state, PV | Exc)]"""
        m = getattr(self, 'e_' + node.__class__.__name__, None)
        if m is None:
            raise Unsupported('expression %s' % node.__class__.__name__, node)
        return m(st, eid, node)

    def eval_list(self, st, eid, nodes):
        """evaluate left to right -> [(state, [PV...] | Exc)]"""
        states = [(st, [])]
        for n in nodes:
            nxt = []
            for (s, acc) in states:
                if isinstance(acc, Exc):
                    nxt.append((s, acc))
                    continue
                for (s1, v) in self.eval(s, eid, n):
                    if isinstance(v, Exc):
                        nxt.append((s1, v))
                    else:
                        nxt.append((s1, acc + [v]))
            states = nxt
        return states

    def e_Constant(self, st, eid, node):
        v = node.value
        return [(st, self.const(v, node))]

    def const(self, v, node=None):
        if v is None:
            return NONE
        if isinstance(v, bool):
            return BoolV(v)
        if isinstance(v, int):
            return IntV(v)
        if isinstance(v, str):
            return StrV(v)
        if isinstance(v, tuple):
            return TupleV([self.const(x, node) for x in v])
        raise Unsupported('constant %r' % (v,), node)

    def e_Name(self, st, eid, node):
        v = st.lookup(eid, node.id)
        if v is None:
            v = self.builtins.get(node.id)
        if v is None:
            raise Unsupported('unbound or unmodelled name %r' % node.id, node)
        return [(st, v)]

    def e_Tuple(self, st, eid, node):
        if any(isinstance(e, ast.Starred) for e in node.elts):
            raise Unsupported('starred in tuple display', node)
        return [(s, v if isinstance(v, Exc) else TupleV(v)) for (s, v) in self.eval_list(st, eid, node.elts)]

    def e_List(self, st, eid, node):
        out = []
        if any(isinstance(e, ast.Starred) for e in node.elts):
            raise Unsupported('starred in list display', node)
        for (s, v) in self.eval_list(st, eid, node.elts):
            if isinstance(v, Exc):
                out.append((s, v))
            else:
                s1 = s.fork()
                out.append((s1, self.new_list(s1, v)))
        return out

    def new_list(self, st, items):
        from . import models
        return st.alloc(models.ListObj(tuple(items)))

    def e_Dict(self, st, eid, node):
        from . import models
        if any(k is None for k in node.keys):
            raise Unsupported('dict display with ** unpacking', node)
        out = []
        for (s, ks) in self.eval_list(st, eid, [x for pair in zip(node.keys, node.values) for x in pair]):
            if isinstance(ks, Exc):
                out.append((s, ks))
                continue
            keys, vals = ks[0::2], ks[1::2]
            out.extend(models.dict_display(self, s, keys, vals, node))
        return out

    def e_Attribute(self, st, eid, node):
        out = []
        for (s, o) in self.eval(st, eid, node.value):
            if isinstance(o, Exc):
                out.append((s, o))
            else:
                out.extend(self.getattr(s, o, node.attr, node))
        return out

    def e_Subscript(self, st, eid, node):
        out = []
        for (s, o) in self.eval(st, eid, node.value):
            if isinstance(o, Exc):
                out.append((s, o))
                continue
            if isinstance(node.slice, ast.Slice):
                out.extend(self.get_slice(s, eid, o, node.slice, node))
                continue
            for (s1, k) in self.eval(s, eid, node.slice):
                if isinstance(k, Exc):
                    out.append((s1, k))
                else:
                    out.extend(self.getitem(s1, o, k, node))
        return out

    def get_slice(self, st, eid, o, sl, node):
        parts = []
        for p in (sl.lower, sl.upper, sl.step):
            if p is None:
                parts.append(None)
            else:
                r = self.eval(st, eid, p)
                if len(r) != 1 or isinstance(r[0][1], Exc):
                    raise Unsupported('slice bound forks or raises', node)
                st, v = r[0]
                parts.append(v)
        if isinstance(o, TupleV) and parts[2] is None:
            lo = parts[0].concrete() if isinstance(parts[0], IntV) else (0 if parts[0] is None else 'x')
            hi = parts[1].concrete() if isinstance(parts[1], IntV) else (None if parts[1] is None else 'x')
            if lo != 'x' and hi != 'x' and lo is not None:
                return [(st, TupleV(o.items[lo:hi]))]
        if isinstance(o, Ref):
            obj = st.get(o)
            if hasattr(obj, 'get_slice'):
                return obj.get_slice(self, st, o, parts, node)
        raise Unsupported('slice of %r' % (o,), node)

    def e_Call(self, st, eid, node):
        out = []
        for (s, f) in self.eval(st, eid, node.func):
            if isinstance(f, Exc):
                out.append((s, f))
                continue
            for (s1, ca) in self.eval_args(s, eid, node):
                if isinstance(ca, Exc):
                    out.append((s1, ca))
                else:
                    out.extend(self.call(s1, f, ca, node))
        return out

    def eval_args(self, st, eid, node):
        """-> [(state, CallArgs | Exc)]"""
        exprs = []
        shape = []
        for a in node.args:
            if isinstance(a, ast.Starred):
                shape.append(('star', None))
                exprs.append(a.value)
            else:
                shape.append(('pos', None))
                exprs.append(a)
        for k in node.keywords:
            shape.append(('dstar', None) if k.arg is None else ('kw', k.arg))
            exprs.append(k.value)
        out = []
        for (s, vals) in self.eval_list(st, eid, exprs):
            if isinstance(vals, Exc):
                out.append((s, vals))
                continue
            ca = CallArgs()
            ok = True
            for (kind, nm), v in zip(shape, vals):
                if kind == 'pos':
                    if ca.star is not None:
                        raise Unsupported('positional argument after *args', node)
                    ca.pos.append(v)
                elif kind == 'kw':
                    ca.kw[nm] = v
                elif kind == 'star':
                    items = self.static_seq(s, v)
                    if items is not None:
                        ca.pos.extend(items)
                    elif ca.star is None:
                        ca.star = v
                    else:
                        raise Unsupported('two symbolic * arguments', node)
                elif kind == 'dstar':
                    items = self.static_map(s, v)
                    if items is not None:
                        ca.kw.update(items)
                    elif ca.dstar is None:
                        ca.dstar = v
                    else:
                        raise Unsupported('two symbolic ** arguments', node)
            out.append((s, ca))
        return out

    def static_seq(self, st, v):
        if isinstance(v, TupleV):
            return list(v.items)
        if isinstance(v, Ref):
            obj = st.get(v)
            if hasattr(obj, 'static_items'):
                return obj.static_items(self, st, v)
        return None

    def static_map(self, st, v):
        if isinstance(v, Ref):
            obj = st.get(v)
            if hasattr(obj, 'static_map'):
                return obj.static_map(self, st, v)
        return None

    def e_Compare(self, st, eid, node):
        if len(node.ops) != 1:
            raise Unsupported('chained comparison', node)
        out = []
        for (s, vs) in self.eval_list(st, eid, [node.left, node.comparators[0]]):
            if isinstance(vs, Exc):
                out.append((s, vs))
            else:
                out.extend(self.compare(s, node.ops[0], vs[0], vs[1], node))
        return out

    def compare(self, st, op, a, b, node):
        from . import models
        return models.compare(self, st, op, a, b, node)

    def e_BoolOp(self, st, eid, node):
        # value-producing and/or: evaluate with forking on truthiness
        out = []
        isand = isinstance(node.op, ast.And)
        states = [(st, None, False)]
        for i, sub in enumerate(node.values):
            nxt = []
            for (s, val, done) in states:
                if done:
                    nxt.append((s, val, True))
                    continue
                for (s1, v) in self.eval(s, eid, sub):
                    if isinstance(v, Exc):
                        nxt.append((s1, v, True))
                        continue
                    if i == len(node.values) - 1:
                        nxt.append((s1, v, True))
                        continue
                    for (s2, t) in self.truth_fork(s1, v, sub):
                        if isinstance(t, Exc):
                            nxt.append((s2, t, True))
                        elif (isand and not t) or ((not isand) and t):
                            nxt.append((s2, v, True))
                        else:
                            nxt.append((s2, None, False))
            states = nxt
        return [(s, v) for (s, v, _) in states]

    def e_UnaryOp(self, st, eid, node):
        out = []
        for (s, v) in self.eval(st, eid, node.operand):
            if isinstance(v, Exc):
                out.append((s, v))
            elif isinstance(node.op, ast.Not):
                for (s1, t) in self.truth_fork(s, v, node):
                    out.append((s1, t if isinstance(t, Exc) else BoolV(not t)))
            elif isinstance(node.op, ast.USub) and isinstance(v, IntV):
                out.append((s, IntV(-v.term)))
            else:
                raise Unsupported('unary operator on %r' % (v,), node)
        return out

    def e_BinOp(self, st, eid, node):
        out = []
        for (s, vs) in self.eval_list(st, eid, [node.left, node.right]):
            if isinstance(vs, Exc):
                out.append((s, vs))
            else:
                out.extend(self.binop(s, node.op, vs[0], vs[1], node))
        return out

    def binop(self, st, op, a, b, node):
        from . import models
        return models.binop(self, st, op, a, b, node)

    def e_IfExp(self, st, eid, node):
        out = []
        for (s, c) in self.eval_cond(st, eid, node.test):
            if isinstance(c, Exc):
                out.append((s, c))
            else:
                out.extend(self.eval(s, eid, node.body if c else node.orelse))
        return out

    def e_Lambda(self, st, eid, node):
        defaults = []
        for d in node.args.defaults:
            r = self.eval(st, eid, d)
            if len(r) != 1 or isinstance(r[0][1], Exc):
                raise Unsupported('lambda default forks', d)
            st, v = r[0]
            defaults.append(v)
        return [(st, ClosureV(node, eid, next(_counter), None, tuple(defaults)))]

    def e_JoinedStr(self, st, eid, node):
        return [(st, Opaque(fresh('fstr', Val)))]

    def e_ListComp(self, st, eid, node):
        from . import models
        return models.comprehension(self, st, eid, node, 'list')

    def e_GeneratorExp(self, st, eid, node):
        from . import models
        return models.comprehension(self, st, eid, node, 'gen')

    def e_DictComp(self, st, eid, node):
        from . import models
        return models.comprehension(self, st, eid, node, 'dict')

    def e_SetComp(self, st, eid, node):
        from . import models
        return models.comprehension(self, st, eid, node, 'set')

    # ---- object protocol --------------------------------------------------------------
    def getattr(self, st, o, name, node=None):
        from . import models
        return models.getattr_(self, st, o, name, node)

    def setattr(self, st, o, name, v, node=None):
        from . import models
        return models.setattr_(self, st, o, name, v, node)

    def getitem(self, st, o, k, node=None):
        from . import models
        return models.getitem(self, st, o, k, node)

    def setitem(self, st, o, k, v, node=None):
        from . import models
        return models.setitem(self, st, o, k, v, node)

    def delitem(self, st, o, k, node=None):
        from . import models
        return models.delitem(self, st, o, k, node)

    def call_method(self, st, o, name, ca, node=None):
        out = []
        for (s, f) in self.getattr(st, o, name, node):
            if isinstance(f, Exc):
                out.append((s, f))
            else:
                out.extend(self.call(s, f, ca, node))
        return out

    # ---- calls -----------------------------------------------------------------------
    def call(self, st, f, ca, node=None):
        """-> [(state, PV | Exc)]"""
        from . import models
        if isinstance(f, FuncV):
            return f.fn(self, st, ca)
        if isinstance(f, BoundV):
            return models.call_bound(self, st, f, ca, node)
        if isinstance(f, MethodV):
            ca2 = CallArgs([f.self_] + ca.pos, ca.kw, ca.star, ca.dstar)
            return self.call(st, f.func, ca2, node)
        if isinstance(f, ClosureV):
            return self.call_closure(st, f, ca, node)
        if isinstance(f, ClassV):
            return models.instantiate(self, st, f, ca, node)
        if isinstance(f, Ref):
            obj = st.get(f)
            if hasattr(obj, 'call'):
                return obj.call(self, st, f, ca, node)
            return self.call_method(st, f, '__call__', ca, node)
        raise Unsupported('call of %r' % (f,), node)

    def bind_params(self, st, f, ca, node):
        """bind arguments to the parameters of closure f in a new env -> (state, eid) or Exc"""
        a = f.node.args
        s = st.fork()
        eid = s.new_env(f.envid)
        params = [p.arg for p in (a.posonlyargs + a.args)]
        npos = len(params)
        pos = list(ca.pos)
        kw = dict(ca.kw)
        # symbolic *args / **kwds are only supported when they flow into *args / **kwds
        if ca.star is not None:
            if not (a.vararg and len(pos) >= npos):
                if not (a.vararg and npos == len(pos)):
                    raise Unsupported('symbolic *args passed to %s whose positional parameters '
                                      'are not all bound explicitly' % f.name, node)
        if ca.dstar is not None and not a.kwarg:
            raise Unsupported('symbolic **kwds passed to %s without **kwargs' % f.name, node)
        bound = {}
        for i, p in enumerate(params):
            if i < len(pos):
                bound[p] = pos[i]
        extra = pos[npos:]
        for k in list(kw):
            if k in params and k not in [x.arg for x in a.posonlyargs]:
                if k in bound:
                    return Exc('TypeError', origin='multiple values for %s' % k)
                bound[k] = kw.pop(k)
        ndef = len(f.defaults)
        for i, p in enumerate(params):
            if p not in bound:
                j = i - (npos - ndef)
                if j >= 0:
                    bound[p] = f.defaults[j]
                else:
                    if ca.dstar is not None or ca.star is not None:
                        raise Unsupported('parameter %s may be supplied by symbolic */** arguments' % p, node)
                    return Exc('TypeError', origin='missing argument %s' % p)
        for p in a.kwonlyargs:
            if p.arg in kw:
                bound[p.arg] = kw.pop(p.arg)
            elif p.arg in f.kwdefaults:
                bound[p.arg] = f.kwdefaults[p.arg]
            else:
                if ca.dstar is not None:
                    raise Unsupported('kw-only parameter may be supplied by symbolic **', node)
                return Exc('TypeError', origin='missing kw-only argument %s' % p.arg)
        if a.vararg:
            if ca.star is not None:
                if extra:
                    raise Unsupported('explicit extra positionals followed by symbolic *args', node)
                bound[a.vararg.arg] = ca.star
            else:
                bound[a.vararg.arg] = TupleV(extra)
        elif extra:
            return Exc('TypeError', origin='too many positional arguments')
        if a.kwarg:
            from . import models
            if ca.dstar is not None:
                if kw:
                    raise Unsupported('explicit keywords merged with symbolic **kwds', node)
                bound[a.kwarg.arg] = ca.dstar
            else:
                bound[a.kwarg.arg] = s.alloc(models.ConcDict(dict(kw)))
        elif kw:
            return Exc('TypeError', origin='unexpected keyword %s' % sorted(kw)[0])
        for k, v in bound.items():
            s.bind(eid, k, v)
        return (s, eid)

    def call_closure(self, st, f, ca, node=None):
        if st.depth >= self.MAX_DEPTH:
            raise Unsupported('call depth exceeded (recursion?) in %s' % f.name, node)
        r = self.bind_params(st, f, ca, node)
        if isinstance(r, Exc):
            return [(st, r)]
        s, eid = r
        s.depth += 1
        out = []
        if isinstance(f.node, ast.Lambda):
            for (s1, v) in self.eval(s, eid, f.node.body):
                s1.depth -= 1
                out.append((s1, v))
            return out
        _number_loops(f.node)
        for (s1, o) in self.exec_block(s, eid, f.node.body):
            s1.depth -= 1
            if o is NEXT:
                out.append((s1, NONE))
            elif o[0] == 'return':
                out.append((s1, o[1]))
            elif o[0] == 'raise':
                out.append((s1, o[1]))
            else:
                raise Unsupported('break/continue outside loop', node)
        return out


_QCACHE = {}


def _has_quantifier(e):
    k = e.get_id()
    r = _QCACHE.get(k)
    if r is None:
        r = False
        todo = [e]
        seen = set()
        while todo:
            t = todo.pop()
            if t.get_id() in seen:
                continue
            seen.add(t.get_id())
            if z3.is_quantifier(t):
                r = True
                break
            todo.extend(t.children())
        _QCACHE[k] = r
    return r


def _unmodelled(name):
    def fn(I, st, ca):
        h = getattr(I, 'unmodelled_hook', None)
        if h is not None:
            r = h(name, I, st, ca)
            if r is not None:
                return r
        raise Unsupported('call of unmodelled external %s' % name)
    return fn


def _is_main_guard(stmt):
    t = stmt.test
    return (isinstance(t, ast.Compare) and isinstance(t.left, ast.Name) and t.left.id == '__name__')


def _copy_tree(node):
    import copy
    return copy.deepcopy(node)


def _number_loops(fnode):
    """give every loop in a function body its ordinal (source order, not counting nested defs)"""
    if getattr(fnode, '_loops_numbered', False):
        return
    n = [0]

    def visit(node):
        for child in ast.iter_child_nodes(node):
            if isinstance(child, (ast.FunctionDef, ast.Lambda, ast.ClassDef, ast.AsyncFunctionDef)):
                continue
            if isinstance(child, (ast.For, ast.While)):
                child._loop_ordinal = n[0]
                n[0] += 1
            visit(child)
    visit(fnode)
    fnode._loops_numbered = True
