"""Source intake: the verified text is the code that runs.

Every run parses the current working tree of /repo/klepto with ast.  Nothing is cached
between runs and no copy of klepto's code lives in /verif.  What parsing drops:
comments and formatting (docstrings are kept in the tree but are expression statements
the executor skips); `if __name__ == '__main__'` blocks are skipped.
"""
import ast
import hashlib
import os

REPO = os.environ.get('KLEPTO_REPO', '/repo')


def source_path(modfile):
    return os.path.join(REPO, 'klepto', modfile)


def load(modfile):
    """-> (ast.Module, sha256 hex, source text)"""
    path = source_path(modfile)
    with open(path, 'rb') as f:
        raw = f.read()
    text = raw.decode('utf-8')
    tree = ast.parse(text, filename=path)
    return tree, hashlib.sha256(raw).hexdigest(), text


def find_class(tree, name):
    for n in tree.body:
        if isinstance(n, ast.ClassDef) and n.name == name:
            return n
    return None


def find_function(node, name):
    for n in node.body:
        if isinstance(n, ast.FunctionDef) and n.name == name:
            return n
    return None


def sha_file(path):
    with open(path, 'rb') as f:
        return hashlib.sha256(f.read()).hexdigest()
