"""Heap-object models = the assumed contracts of Python builtins (DESIGN.md 4.2),
plus the generic object protocol (getattr / getitem / call / instantiate ...).

Every model is a trusted axiom about CPython; each is listed in the evidence
trusted_base and is exercised against real CPython objects by the axiom
monitors (pyvc/axmon.py).
"""
import ast
import z3
from .symex import (forall, Val, INT, BOOL, fresh, Hashable, BoxInt, UnboxInt, NoneC, Truthy,
                    PV, Opaque, IntV, BoolV, NoneV, NONE, StrV, TupleV, Ref, FuncV, BoundV,
                    ClosureV, MethodV, ClassV, PropertyV, ExcV, SeqV, ViewV, ModuleV,
                    Exc, CallArgs, Unsupported, EXC_BASES, State)

ValSet = z3.ArraySort(Val, BOOL)
ValMap = z3.ArraySort(Val, Val)
ValIntMap = z3.ArraySort(Val, INT)
IntValMap = z3.ArraySort(INT, Val)

EMPTY_SET = z3.K(Val, z3.BoolVal(False))


def _x():
    return z3.Const('x!q', Val)


# ----------------------------------------------------------------------------
# dict (and dict subclasses)
# ----------------------------------------------------------------------------
class DictObj(object):
    """finite map Val -> (Val | Int).  dom/val arrays + ghost size = |dom|.
    cls: ClassV of a user subclass of dict (or None); attrs: instance attributes."""
    kind = 'dict'

    def __init__(self, dom, val, size, vsort='Val', cls=None, attrs=None, role=None):
        self.dom = dom
        self.val = val
        self.size = size
        self.vsort = vsort        # 'Val' | 'Int'
        self.cls = cls
        self.attrs = attrs or {}
        self.role = role

    def clone(self, **kw):
        d = DictObj(self.dom, self.val, self.size, self.vsort, self.cls, dict(self.attrs), self.role)
        for k, v in kw.items():
            setattr(d, k, v)
        return d

    @staticmethod
    def empty(vsort='Val', cls=None, role=None):
        val = z3.K(Val, z3.IntVal(0)) if vsort == 'Int' else z3.K(Val, NoneC)
        return DictObj(EMPTY_SET, val, z3.IntVal(0), vsort, cls, {}, role)

    @staticmethod
    def symbolic(name, vsort='Val', cls=None, role=None):
        dom = fresh(name + '_dom', ValSet)
        val = fresh(name + '_val', ValIntMap if vsort == 'Int' else ValMap)
        size = fresh(name + '_size', INT)
        d = DictObj(dom, val, size, vsort, cls, {}, role)
        d.wit = fresh(name + '_wit', Val)
        return d

    def facts(self):
        """assumed well-formedness of a havocked dict (finite map, hashable keys; a non-empty
        dict has some key: `wit` is its Skolem witness)"""
        x = _x()
        out = [self.size >= 0,
               forall([x], z3.Implies(self.dom[x], z3.And(self.size >= 1, Hashable(x))),
                      patterns=[self.dom[x]])]
        wit = getattr(self, 'wit', None)
        if wit is not None:
            out.append(z3.Implies(self.size >= 1, self.dom[wit]))
        return out

    def havoc(self, I, st):
        d = DictObj.symbolic('hv', self.vsort, self.cls, self.role)
        d.attrs = dict(self.attrs)
        st.assume(*d.facts())
        return d

    def wrap(self, term):
        return IntV(term) if self.vsort == 'Int' else Opaque(term)

    def unwrap(self, I, pv, node=None):
        if self.vsort == 'Int':
            if isinstance(pv, IntV):
                return pv.term
            raise Unsupported('non-int stored in int-valued dict: %r' % (pv,), node)
        return I.to_val(pv, node)

    def truth(self, I, st, ref):
        return self.size > 0


def _keyterm(I, k, node):
    return I.to_val(k, node)


def dict_getitem(I, st, ref, k, node, use_missing=True):
    d = st.get(ref)
    kt = _keyterm(I, k, node)
    out = []
    for (s, h) in I.branch(st, Hashable(kt), None, 'unhashable'):
        if not h:
            s.label('unhashable')
            out.append((s, Exc('TypeError', origin='dict[unhashable]')))
            continue
        for (s1, present) in I.branch(s, d.dom[kt], 'in', 'notin'):
            if present:
                out.append((s1, d.wrap(d.val[kt])))
            else:
                miss = None
                if use_missing and d.cls is not None:
                    miss, _ = d.cls.lookup('__missing__')
                if miss is not None:
                    out.extend(I.call(s1, miss, CallArgs([ref, k]), node))
                else:
                    out.append((s1, Exc('KeyError', payload=(k,), origin='dict[missing]')))
    return out


def dict_setitem(I, st, ref, k, v, node):
    d = st.get(ref)
    kt = _keyterm(I, k, node)
    out = []
    for (s, h) in I.branch(st, Hashable(kt), None, 'unhashable'):
        if not h:
            out.append((s, Exc('TypeError', origin='dict[unhashable]=')))
            continue
        d1 = s.get(ref)
        if d1.vsort is None or (d1.vsort == 'Val' and isinstance(v, IntV) and d1.role == 'fresh'):
            d1 = d1.clone(vsort='Int', val=z3.K(Val, z3.IntVal(0)), role=None)
        vt = d1.unwrap(I, v, node)
        s2 = s.fork()
        s2.put(ref, d1.clone(dom=z3.Store(d1.dom, kt, True), val=z3.Store(d1.val, kt, vt),
                             size=d1.size + z3.If(d1.dom[kt], 0, 1)))
        out.append((s2, NONE))
    return out


def dict_delitem(I, st, ref, k, node):
    d = st.get(ref)
    kt = _keyterm(I, k, node)
    out = []
    for (s, h) in I.branch(st, Hashable(kt), None, 'unhashable'):
        if not h:
            out.append((s, Exc('TypeError', origin='del dict[unhashable]')))
            continue
        for (s1, present) in I.branch(s, d.dom[kt], 'in', 'notin'):
            if present:
                s2 = s1.fork()
                s2.put(ref, d.clone(dom=z3.Store(d.dom, kt, False), size=d.size - 1))
                out.append((s2, NONE))
            else:
                out.append((s1, Exc('KeyError', payload=(k,), origin='del dict[missing]')))
    return out


def dict_contains(I, st, ref, k, node):
    d = st.get(ref)
    kt = _keyterm(I, k, node)
    out = []
    for (s, h) in I.branch(st, Hashable(kt), None, 'unhashable'):
        if not h:
            out.append((s, Exc('TypeError', origin='unhashable in dict')))
        else:
            out.append((s, BoolV(d.dom[kt])))
    return out


def overlay(I, st, base, other_dom, other_val, other_size):
    """base (+) other: other wins.  returns new (dom, val, size); size facts assumed in st"""
    x = _x()
    dom = z3.Lambda([x], z3.Or(base.dom[x], other_dom[x]))
    val = z3.Lambda([x], z3.If(other_dom[x], other_val[x], base.val[x]))
    size = fresh('ovsize', INT)
    st.assume(size >= base.size, size >= other_size, size <= base.size + other_size)
    return dom, val, size


def dict_update_from(I, st, ref, other, node):
    """d.update(other) for other a dict-like heap object"""
    d = st.get(ref)
    if isinstance(other, Ref):
        o = st.get(other)
        if isinstance(o, ConcDict):
            states = [(st, NONE)]
            for k, v in o.items.items():
                nxt = []
                for (s, r) in states:
                    if isinstance(r, Exc):
                        nxt.append((s, r))
                    else:
                        nxt.extend(dict_setitem(I, s, ref, StrV(k), v, node))
                states = nxt
            return states
        if isinstance(o, DictObj):
            if o.vsort != d.vsort:
                raise Unsupported('update between dicts of different value sorts', node)
            s = st.fork()
            single = getattr(o, 'single', None)
            if single is not None:
                # {k: v}: exact size accounting
                return dict_setitem(I, s, ref, single[0], single[1], node)
            dom, val, size = overlay(I, s, d, o.dom, o.val, o.size)
            s.put(ref, d.clone(dom=dom, val=val, size=size))
            return [(s, NONE)]
        if isinstance(o, ArchiveObj):
            raise Unsupported('dict.update(archive) goes through __asdict__/keys protocol', node)
    raise Unsupported('dict.update(%r)' % (other,), node)


def dict_method(I, st, ref, name, ca, node):
    d = st.get(ref)
    if not ca.plain():
        raise Unsupported('dict.%s with symbolic */** arguments' % name, node)
    a = ca.pos
    if name == '__getitem__' and len(a) == 1:
        return dict_getitem(I, st, ref, a[0], node, use_missing=True)
    if name == '__setitem__' and len(a) == 2:
        return dict_setitem(I, st, ref, a[0], a[1], node)
    if name == '__delitem__' and len(a) == 1:
        return dict_delitem(I, st, ref, a[0], node)
    if name == '__contains__' and len(a) == 1:
        return dict_contains(I, st, ref, a[0], node)
    if name == '__len__' and not a:
        return [(st, IntV(d.size))]
    if name == 'clear' and not a:
        s = st.fork()
        s.put(ref, d.clone(dom=EMPTY_SET, size=z3.IntVal(0)))
        return [(s, NONE)]
    if name == 'get' and len(a) in (1, 2):
        default = a[1] if len(a) == 2 else NONE
        out = []
        for (s, r) in dict_getitem(I, st, ref, a[0], node, use_missing=False):
            if isinstance(r, Exc) and r.kind == 'KeyError':
                out.append((s, default))
            else:
                out.append((s, r))
        return out
    if name == 'pop' and len(a) in (1, 2):
        out = []
        for (s, r) in dict_getitem(I, st, ref, a[0], node, use_missing=False):
            if isinstance(r, Exc):
                if r.kind == 'KeyError' and len(a) == 2:
                    out.append((s, a[1]))
                else:
                    out.append((s, r))
                continue
            for (s1, r1) in dict_delitem(I, s, ref, a[0], node):
                out.append((s1, r1 if isinstance(r1, Exc) else r))
        return out
    if name == 'popitem' and not a:
        # some item of the dict (LIFO order is not modelled); KeyError iff empty
        out = []
        for (s, nonempty) in I.branch(st, d.size >= 1, 'nonempty', 'empty'):
            if not nonempty:
                out.append((s, Exc('KeyError', origin='popitem(): dictionary is empty')))
                continue
            k = fresh('popped', Val)
            s2 = s.fork()
            s2.assume(d.dom[k], Hashable(k))
            s2.put(ref, d.clone(dom=z3.Store(d.dom, k, False), size=d.size - 1))
            out.append((s2, TupleV([Opaque(k), d.wrap(d.val[k])])))
        return out
    if name == 'setdefault' and len(a) in (1, 2):
        default = a[1] if len(a) == 2 else NONE
        out = []
        for (s, r) in dict_getitem(I, st, ref, a[0], node, use_missing=False):
            if isinstance(r, Exc) and r.kind == 'KeyError':
                for (s1, r1) in dict_setitem(I, s, ref, a[0], default, node):
                    out.append((s1, r1 if isinstance(r1, Exc) else default))
            else:
                out.append((s, r))
        return out
    if name == 'update' and len(a) == 1 and not ca.kw:
        return dict_update_from(I, st, ref, a[0], node)
    if name == 'keys' and not a:
        return [(st, ViewV('keys', ref))]
    if name == 'items' and not a:
        return [(st, ViewV('items', ref))]
    if name == 'values' and not a:
        return [(st, ViewV('values', ref))]
    if name == 'copy' and not a:
        s = st.fork()
        return [(s, s.alloc(DictObj(d.dom, d.val, d.size, d.vsort, None, {}, None)))]
    if name == 'fromkeys' and len(a) in (1, 2):
        return dict_fromkeys(I, st, a, node)
    if name == '__iter__' and not a:
        return [(st, ViewV('iter', ViewV('keys', ref)))]
    raise Unsupported('dict method %s/%d' % (name, len(a)), node)


def dict_fromkeys(I, st, a, node):
    src = a[0]
    if len(a) == 2 and not isinstance(a[1], NoneV):
        raise Unsupported('fromkeys with a non-None value', node)
    if isinstance(src, ViewV) and src.kind == 'keys' and isinstance(src.base, Ref):
        o = st.get(src.base)
        if isinstance(o, DictObj):
            s = st.fork()
            return [(s, s.alloc(DictObj(o.dom, z3.K(Val, NoneC), o.size, 'Val', None, {}, None)))]
    raise Unsupported('dict.fromkeys(%r)' % (src,), node)


def keys_seq(I, st, ref, with_values=False):
    """list(d.keys()) / d.items(): a sequence enumerating the domain exactly once each"""
    d = st.get(ref)
    arr = fresh('keys', IntValMap)
    idx = fresh('kidx', ValIntMap)
    i = z3.Const('i!q', INT)
    x = _x()
    st.assume(forall([i], z3.Implies(z3.And(0 <= i, i < d.size),
                                         z3.And(d.dom[arr[i]], idx[arr[i]] == i)), patterns=[arr[i]]),
              forall([x], z3.Implies(d.dom[x], z3.And(0 <= idx[x], idx[x] < d.size, arr[idx[x]] == x)),
                        patterns=[idx[x]]))
    if with_values:
        return SeqV(d.size, lambda j: TupleV([Opaque(arr[j]), d.wrap(d.val[arr[j]])]), 'items',
                    {'arr': arr, 'idx': idx, 'dict': d})
    return SeqV(d.size, lambda j: Opaque(arr[j]), 'keys', {'arr': arr, 'idx': idx, 'dict': d})


def dict_display(I, st, keys, vals, node):
    """{k: v, ...}"""
    if all(isinstance(k, StrV) for k in keys):
        s = st.fork()
        return [(s, s.alloc(ConcDict({k.s: v for k, v in zip(keys, vals)})))]
    vsort = 'Int' if vals and all(isinstance(v, IntV) for v in vals) else 'Val'
    s = st.fork()
    ref = s.alloc(DictObj.empty(vsort, role='fresh'))
    states = [(s, NONE)]
    for k, v in zip(keys, vals):
        nxt = []
        for (s1, r) in states:
            if isinstance(r, Exc):
                nxt.append((s1, r))
            else:
                nxt.extend(dict_setitem(I, s1, ref, k, v, node))
        states = nxt
    out = []
    for (s1, r) in states:
        if isinstance(r, Exc):
            out.append((s1, r))
        else:
            if len(keys) == 1:
                d = s1.get(ref).clone()
                d.single = (keys[0], vals[0])
                s1.put(ref, d)
            out.append((s1, ref))
    return out


class ConcDict(object):
    """dict with statically known string keys (keyword dicts, __state__ dicts)"""
    kind = 'concdict'

    def __init__(self, items):
        self.items = dict(items)

    def static_map(self, I, st, ref):
        return dict(self.items)

    def truth(self, I, st, ref):
        return z3.BoolVal(bool(self.items))


def concdict_method(I, st, ref, name, ca, node):
    d = st.get(ref)
    a = ca.pos
    if not d.items and ((a and not isinstance(a[0], StrV) and name in ('__delitem__', 'pop', '__getitem__', 'get', '__contains__', 'setdefault',
                                                                         '__setitem__', 'update')) or (name == 'popitem' and not a)):
        # an empty dict literal asked about an arbitrary key: the dict contract on the empty map
        s0 = st.fork()
        s0.put(ref, DictObj.empty('Val', role='fresh'))
        return dict_method(I, s0, ref, name, ca, node)
    if name in ('get', 'pop') and len(a) in (1, 2) and isinstance(a[0], StrV):
        if a[0].s in d.items:
            v = d.items[a[0].s]
            if name == 'pop':
                s = st.fork()
                items = dict(d.items)
                del items[a[0].s]
                s.put(ref, ConcDict(items))
                return [(s, v)]
            return [(st, v)]
        if len(a) == 2:
            return [(st, a[1])]
        if name == 'get':
            return [(st, NONE)]
        return [(st, Exc('KeyError', payload=(a[0],), origin='concdict.pop'))]
    if name == 'copy' and not a:
        s = st.fork()
        return [(s, s.alloc(ConcDict(d.items)))]
    if name == '__getitem__' and len(a) == 1 and isinstance(a[0], StrV):
        if a[0].s in d.items:
            return [(st, d.items[a[0].s])]
        return [(st, Exc('KeyError', payload=(a[0],), origin='concdict[]'))]
    if name == '__contains__' and len(a) == 1 and isinstance(a[0], StrV):
        return [(st, BoolV(a[0].s in d.items))]
    if name == 'update' and len(a) <= 1:
        items = dict(d.items)
        if a:
            m = I.static_map(st, a[0])
            if m is None:
                raise Unsupported('concdict.update(non-static)', node)
            items.update(m)
        items.update(ca.kw)
        s = st.fork()
        s.put(ref, ConcDict(items))
        return [(s, NONE)]
    if name == 'items' and not a:
        return [(st, TupleV([TupleV([StrV(k), v]) for k, v in d.items.items()]))]
    if name == 'keys' and not a:
        return [(st, TupleV([StrV(k) for k in d.items]))]
    if name == 'values' and not a:
        return [(st, TupleV(list(d.items.values())))]      # insertion order, as in Python
    raise Unsupported('concdict method %s%r' % (name, a), node)


# ----------------------------------------------------------------------------
# list of statically known length (mutable), e.g. stats = [0, 0, 0]
# ----------------------------------------------------------------------------
class ListObj(object):
    kind = 'list'

    def __init__(self, items, role=None):
        self.items = tuple(items)
        self.role = role

    def static_items(self, I, st, ref):
        return list(self.items)

    def truth(self, I, st, ref):
        return z3.BoolVal(bool(self.items))

    def unpack(self, I, st, ref, n, node):
        if len(self.items) != n:
            return [(st, Exc('ValueError', origin='unpack'))]
        return [(st, self.items)]

    def set_all(self, I, st, ref, v, node):
        items = I.static_seq(st, v)
        if items is None:
            raise Unsupported('list[:] = non-static', node)
        s = st.fork()
        s.put(ref, ListObj(items, self.role))
        return [(s, NONE)]

    def havoc(self, I, st):
        items = []
        for it in self.items:
            if isinstance(it, IntV):
                items.append(IntV(fresh('li', INT)))
            elif isinstance(it, Opaque):
                items.append(Opaque(fresh('lo', Val)))
            else:
                items.append(it)
        return ListObj(items, self.role)


def list_index(I, obj, k, node):
    if isinstance(k, IntV):
        c = k.concrete()
        if c is not None:
            n = len(obj.items)
            if -n <= c < n:
                return c % n if n else None
            return 'IndexError'
    raise Unsupported('list index %r is not a concrete int' % (k,), node)


# ----------------------------------------------------------------------------
# collections.deque
# ----------------------------------------------------------------------------
class DequeObj(object):
    """window arr[lo:hi) with ghosts: cnt[x] = occurrences of x in the window,
    first[x]/last[x] = index of the first/last occurrence (meaningful iff cnt[x] >= 1)"""
    kind = 'deque'

    def __init__(self, arr, lo, hi, cnt, first, last, role=None):
        self.arr, self.lo, self.hi = arr, lo, hi
        self.cnt, self.first, self.last = cnt, first, last
        self.role = role

    def clone(self, **kw):
        d = DequeObj(self.arr, self.lo, self.hi, self.cnt, self.first, self.last, self.role)
        for k, v in kw.items():
            setattr(d, k, v)
        return d

    @staticmethod
    def empty(role=None):
        return DequeObj(z3.K(INT, NoneC), z3.IntVal(0), z3.IntVal(0), z3.K(Val, z3.IntVal(0)),
                        z3.K(Val, z3.IntVal(0)), z3.K(Val, z3.IntVal(0)), role)

    @staticmethod
    def symbolic(name, role=None):
        return DequeObj(fresh(name + '_arr', IntValMap), fresh(name + '_lo', INT), fresh(name + '_hi', INT),
                        fresh(name + '_cnt', ValIntMap), fresh(name + '_first', ValIntMap),
                        fresh(name + '_last', ValIntMap), role)

    def facts(self):
        """theorems about the occurrence-count / first / last-occurrence functions of the window
        arr[lo:hi) (they are functions of the contents, so the facts hold in every state;
        checked against real deques by pyvc/axmon.py)"""
        x = _x()
        i = z3.Const('i!q', INT)
        a, lo, hi, c, f, l = self.arr, self.lo, self.hi, self.cnt, self.first, self.last
        return [lo <= hi,
                forall([x], z3.And(c[x] >= 0, c[x] <= hi - lo), patterns=[c[x]]),
                forall([i], z3.Implies(z3.And(lo <= i, i < hi),
                                          z3.And(c[a[i]] >= 1, f[a[i]] <= i, i <= l[a[i]])),
                          patterns=[a[i]]),
                forall([x], z3.Implies(c[x] >= 1,
                                          z3.And(lo <= f[x], f[x] <= l[x], l[x] < hi,
                                                 a[f[x]] == x, a[l[x]] == x,
                                                 (c[x] == 1) == (f[x] == l[x]))),
                          patterns=[c[x]])]

    def havoc(self, I, st):
        d = DequeObj.symbolic('hq', self.role)
        st.assume(*d.facts())
        return d

    def truth(self, I, st, ref):
        return self.hi > self.lo


def deque_method(I, st, ref, name, ca, node):
    d = st.get(ref)
    a = ca.pos
    if not ca.plain() or ca.kw:
        raise Unsupported('deque.%s with keyword/star arguments' % name, node)
    if name == 'append' and len(a) == 1:
        x = I.to_val(a[0], node)
        s = st.fork()
        nd = d.clone(arr=z3.Store(d.arr, d.hi, x), hi=d.hi + 1,
                     cnt=z3.Store(d.cnt, x, d.cnt[x] + 1),
                     last=z3.Store(d.last, x, d.hi),
                     first=z3.Store(d.first, x, z3.If(d.cnt[x] >= 1, d.first[x], d.hi)))
        s.put(ref, nd)
        s.assume(*nd.facts())
        return [(s, NONE)]
    if name == 'appendleft' and len(a) == 1:
        x = I.to_val(a[0], node)
        s = st.fork()
        nd = d.clone(arr=z3.Store(d.arr, d.lo - 1, x), lo=d.lo - 1,
                     cnt=z3.Store(d.cnt, x, d.cnt[x] + 1),
                     first=z3.Store(d.first, x, d.lo - 1),
                     last=z3.Store(d.last, x, z3.If(d.cnt[x] >= 1, d.last[x], d.lo - 1)))
        s.put(ref, nd)
        s.assume(*nd.facts())
        return [(s, NONE)]
    if name in ('pop', 'popleft') and not a:
        out = []
        for (s, nonempty) in I.branch(st, d.hi > d.lo, 'q-nonempty', 'q-empty'):
            if not nonempty:
                out.append((s, Exc('IndexError', origin='pop from an empty deque')))
                continue
            s2 = s.fork()
            if name == 'popleft':
                x = d.arr[d.lo]
                nf = fresh('nfirst', INT)
                # the next occurrence of x (if any) becomes its first occurrence
                i = z3.Const('i!q', INT)
                s2.assume(z3.Implies(d.cnt[x] >= 2,
                                     z3.And(d.lo < nf, nf <= d.last[x], d.arr[nf] == x,
                                            forall([i], z3.Implies(z3.And(d.lo < i, i < nf), d.arr[i] != x),
                                                      patterns=[d.arr[i]]))))
                nd = d.clone(lo=d.lo + 1, cnt=z3.Store(d.cnt, x, d.cnt[x] - 1),
                             first=z3.Store(d.first, x, nf))
                s2.put(ref, nd)
                s2.assume(*nd.facts())
            else:
                x = d.arr[d.hi - 1]
                nl = fresh('nlast', INT)
                i = z3.Const('i!q', INT)
                s2.assume(z3.Implies(d.cnt[x] >= 2,
                                     z3.And(d.first[x] <= nl, nl < d.hi - 1, d.arr[nl] == x,
                                            forall([i], z3.Implies(z3.And(nl < i, i < d.hi - 1), d.arr[i] != x),
                                                      patterns=[d.arr[i]]))))
                nd = d.clone(hi=d.hi - 1, cnt=z3.Store(d.cnt, x, d.cnt[x] - 1),
                             last=z3.Store(d.last, x, nl))
                s2.put(ref, nd)
                s2.assume(*nd.facts())
            out.append((s2, Opaque(x)))
        return out
    if name == 'clear' and not a:
        s = st.fork()
        s.put(ref, DequeObj.empty(d.role))
        return [(s, NONE)]
    if name == 'remove' and len(a) == 1:
        x = I.to_val(a[0], node)
        out = []
        for (s, present) in I.branch(st, d.cnt[x] >= 1, 'q-has', 'q-hasnot'):
            if not present:
                out.append((s, Exc('ValueError', origin='deque.remove(x): x not in deque')))
                continue
            # remove the first occurrence of x: everything after it shifts left by one
            s2 = s.fork()
            p = d.first[x]
            i = z3.Const('i!q', INT)
            y = _x()
            arr = z3.Lambda([i], z3.If(i < p, d.arr[i], d.arr[i + 1]))
            nd = DequeObj.symbolic('rm', d.role)
            nd = nd.clone(arr=arr, lo=d.lo, hi=d.hi - 1, cnt=z3.Store(d.cnt, x, d.cnt[x] - 1))
            sh = lambda t: z3.If(t > p, t - 1, t)
            s2.assume(forall([y], z3.Implies(z3.And(y != x, d.cnt[y] >= 1),
                                                z3.And(nd.first[y] == sh(d.first[y]),
                                                       nd.last[y] == sh(d.last[y]))),
                                patterns=[nd.first[y]]),
                      forall([y], z3.Implies(z3.And(y != x, d.cnt[y] >= 1),
                                                z3.And(nd.first[y] == sh(d.first[y]),
                                                       nd.last[y] == sh(d.last[y]))),
                                patterns=[nd.last[y]]),
                      z3.Implies(d.cnt[x] >= 2,
                                 z3.And(nd.last[x] == d.last[x] - 1, p <= nd.first[x],
                                        nd.first[x] <= nd.last[x], arr[nd.first[x]] == x,
                                        (d.cnt[x] == 2) == (nd.first[x] == nd.last[x]))))
            s2.put(ref, nd)
            s2.assume(*nd.facts())
            out.append((s2, NONE))
        return out
    if name == '__len__' and not a:
        return [(st, IntV(d.hi - d.lo))]
    raise Unsupported('deque method %s/%d' % (name, len(a)), node)


# ----------------------------------------------------------------------------
# generic instances of user classes / opaque objects with attributes
# ----------------------------------------------------------------------------
class InstObj(object):
    kind = 'inst'

    def __init__(self, cls, attrs=None, tag=None):
        self.cls = cls
        self.attrs = dict(attrs or {})
        self.tag = tag

    def clone(self):
        return InstObj(self.cls, self.attrs, self.tag)


class ArchiveObj(object):
    """abstract klepto archive (the backend of a cache object): either a null archive
    (discards writes, always empty) or a lossless dict-like store.  Contract = dict
    contract on (dom,val,size) when not null; see DESIGN.md Appendix B."""
    kind = 'archive'

    def __init__(self, null, dom, val, size, role=None):
        self.null, self.dom, self.val, self.size = null, dom, val, size
        self.role = role

    def clone(self, **kw):
        a = ArchiveObj(self.null, self.dom, self.val, self.size, self.role)
        for k, v in kw.items():
            setattr(a, k, v)
        return a

    @staticmethod
    def symbolic(name, role=None):
        return ArchiveObj(fresh(name + '_null', BOOL), fresh(name + '_dom', ValSet),
                          fresh(name + '_val', ValMap), fresh(name + '_size', INT), role)

    def facts(self):
        x = _x()
        return [self.size >= 0,
                forall([x], z3.Implies(self.dom[x], z3.And(self.size >= 1, Hashable(x))),
                          patterns=[self.dom[x]]),
                z3.Implies(self.null, z3.And(self.size == 0,
                                             forall([x], z3.Not(self.dom[x]), patterns=[self.dom[x]])))]

    def havoc(self, I, st):
        a = ArchiveObj.symbolic('ha', self.role)
        a.null = self.null          # the kind of an archive object never changes
        st.assume(*a.facts())
        return a


ArchiveWriteExc = z3.Function('ArchiveWriteExc', Val, BOOL)     # the exception of a rejected archive write
PartDom = z3.Function('PartDom', ValSet, ValSet, ValSet)
PartVal = z3.Function('PartVal', ValSet, ValMap, ValSet, ValMap, ValMap)


def archive_write_rejected(I, st, a, ref, bulk):
    """-> [(state, None | Exc)]: a write to a (non-null) archive either goes through, or the backend rejects a value it
    cannot encode and raises.  A rejected single-key write changes nothing; a rejected bulk write may have stored some of
    the entries already (the archive is then somewhere between the old contents and the overlay)."""
    out = []
    for (s, fails) in I.branch(st, fresh('archive_write_rejected', BOOL), 'arch-write-fails', None):
        if not fails:
            out.append((s, None))
            continue
        e = Exc(None, origin='archive write rejected')
        s2 = s.fork()
        s2.assume(ArchiveWriteExc(e.term))
        if bulk is not None:
            x = _x()
            # which entries made it is a function of the inputs (so that a contract and its implementation name the same state)
            part = ArchiveObj(a.null, PartDom(a.dom, bulk.dom), PartVal(a.dom, a.val, bulk.dom, bulk.val), fresh('partial_size', INT), a.role)
            s2.assume(*part.facts())
            s2.assume(forall([x], z3.Implies(a.dom[x], part.dom[x])),
                      forall([x], z3.Implies(part.dom[x], z3.Or(a.dom[x], bulk.dom[x]))),
                      forall([x], z3.Implies(part.dom[x], z3.Or(z3.And(a.dom[x], part.val[x] == a.val[x]),
                                                                  z3.And(bulk.dom[x], part.val[x] == bulk.val[x])))))
            s2.put(ref, part)
        out.append((s2, e))
    return out


def archive_method(I, st, ref, name, ca, node):
    a = st.get(ref)
    p = ca.pos
    if not ca.plain():
        raise Unsupported('archive.%s with star arguments' % name, node)
    if name == '__getitem__' and len(p) == 1:
        kt = I.to_val(p[0], node)
        out = []
        for (s, h) in I.branch(st, Hashable(kt), None, 'unhashable'):
            if not h:
                out.append((s, Exc('TypeError', origin='archive[unhashable]')))
                continue
            for (s1, present) in I.branch(s, a.dom[kt], 'arch-in', 'arch-notin'):
                if present:
                    out.append((s1, Opaque(a.val[kt])))
                else:
                    out.append((s1, Exc('KeyError', payload=(p[0],), origin='archive[missing]')))
        return out
    if name == '__asdict__' and not p:
        s = st.fork()
        return [(s, s.alloc(DictObj(a.dom, a.val, a.size, 'Val', None, {}, None)))]
    if name == 'update' and len(p) == 1 and not ca.kw:
        src = p[0]
        if not isinstance(src, Ref):
            raise Unsupported('archive.update(%r)' % (src,), node)
        o = st.get(src)
        if not isinstance(o, DictObj) or o.vsort != 'Val':
            raise Unsupported('archive.update(non-dict)', node)
        out = []
        for (s, isnull) in I.branch(st, a.null, 'null-arch', 'real-arch'):
            if isnull:
                out.append((s, NONE))
                continue
            single = getattr(o, 'single', None)
            # a persistent backend may reject a value it cannot encode: the write raises (see archive_write_rejected)
            for (s_ok, rejected) in archive_write_rejected(I, s, a, ref, o if single is None else None):
                if rejected is not None:
                    out.append((s_ok, rejected))
                    continue
                s2 = s_ok.fork()
                if single is not None:
                    kt = I.to_val(single[0], node)
                    vt = I.to_val(single[1], node)
                    s2.put(ref, a.clone(dom=z3.Store(a.dom, kt, True), val=z3.Store(a.val, kt, vt),
                                        size=a.size + z3.If(a.dom[kt], 0, 1)))
                else:
                    dom, val, size = overlay(I, s2, a, o.dom, o.val, o.size)
                    s2.put(ref, a.clone(dom=dom, val=val, size=size))
                out.append((s2, NONE))
        return out
    if name == 'clear' and not p:
        s = st.fork()
        s.put(ref, a.clone(dom=EMPTY_SET, size=z3.IntVal(0)))
        return [(s, NONE)]
    if name == '__len__' and not p:
        return [(st, IntV(a.size))]
    if name == 'get' and len(p) in (1, 2) and not ca.kw:
        default = p[1] if len(p) == 2 else NONE
        out = []
        for (s, r) in archive_method(I, st, ref, '__getitem__', CallArgs([p[0]]), node):
            if isinstance(r, Exc) and r.kind == 'KeyError':
                out.append((s, default))
            else:
                out.append((s, r))
        return out
    if name == '__contains__' and len(p) == 1 and not ca.kw:
        kt = I.to_val(p[0], node)
        out = []
        for (s, h) in I.branch(st, Hashable(kt), None, 'unhashable'):
            if not h:
                out.append((s, Exc('TypeError', origin='unhashable in archive')))
            else:
                out.append((s, BoolV(a.dom[kt])))
        return out
    if name == '__setitem__' and len(p) == 2 and not ca.kw:
        kt = I.to_val(p[0], node)
        vt = I.to_val(p[1], node)
        out = []
        for (s, h) in I.branch(st, Hashable(kt), None, 'unhashable'):
            if not h:
                out.append((s, Exc('TypeError', origin='archive[unhashable]=')))
                continue
            for (s1, isnull) in I.branch(s, a.null, 'null-arch', 'real-arch'):
                if isnull:
                    out.append((s1, NONE))
                else:
                    for (s_ok, rejected) in archive_write_rejected(I, s1, a, ref, None):
                        if rejected is not None:
                            out.append((s_ok, rejected))
                            continue
                        s2 = s_ok.fork()
                        s2.put(ref, a.clone(dom=z3.Store(a.dom, kt, True), val=z3.Store(a.val, kt, vt),
                                            size=a.size + z3.If(a.dom[kt], 0, 1)))
                        out.append((s2, NONE))
        return out
    raise Unsupported('archive method %s/%d' % (name, len(p)), node)


# ----------------------------------------------------------------------------
# generic protocol
# ----------------------------------------------------------------------------
DICT_ATTRS = set(['__getitem__', '__setitem__', '__delitem__', '__contains__', '__len__', '__iter__', 'clear', 'copy', 'fromkeys',
                  'get', 'items', 'keys', 'pop', 'popitem', 'setdefault', 'update', 'values', '__eq__', '__ne__', '__repr__',
                  '__class__', '__init__', '__missing__'])


def class_of(I, st, o):
    """ClassV of a value where known (else None)"""
    if isinstance(o, Ref):
        obj = st.get(o)
        cls = getattr(obj, 'cls', None)
        if cls is not None:
            return cls
        return I.builtin_class(obj.kind)
    return None


def getattr_(I, st, o, name, node):
    if isinstance(o, Ref):
        obj = st.get(o)
        cls = getattr(obj, 'cls', None)
        # 1. data descriptors (properties) of the class
        if cls is not None:
            v, owner = cls.lookup(name)
            if isinstance(v, PropertyV):
                return I.call(st, v.fget, CallArgs([o]), node)
        if name == '__class__' and cls is not None:
            return [(st, cls)]
        # 2. instance attributes
        attrs = getattr(obj, 'attrs', None)
        if attrs is not None and name in attrs:
            return [(st, attrs[name])]
        # 3. class attributes
        if cls is not None:
            v, owner = cls.lookup(name)
            if v is not None:
                if isinstance(v, ClosureV):
                    return [(st, MethodV(v, o))]
                if isinstance(v, FuncV) and v.tag in ('unbound-builtin', 'method'):
                    return [(st, BoundV(o, name))]
                return [(st, v)]
        # 4. model methods of the builtin part
        if obj.kind in ('dict', 'concdict') and name not in DICT_ATTRS:
            return [(st, Exc('AttributeError', origin='dict object has no attribute %s' % name))]
        if obj.kind in ('dict', 'deque', 'list', 'concdict', 'archive', 'file', 'set') or hasattr(obj, 'methods'):
            if hasattr(obj, 'getattr'):
                r = obj.getattr(I, st, o, name, node)
                if r is not None:
                    return r
            return [(st, BoundV(o, name))]
        if hasattr(obj, 'getattr'):
            r = obj.getattr(I, st, o, name, node)
            if r is not None:
                return r
        return [(st, Exc('AttributeError', origin='no attribute %s' % name))]
    if isinstance(o, ClosureV):
        v = st.fattrs.get((o.cid, name))
        if v is not None:
            return [(st, v)]
        if name == '__name__':
            return [(st, StrV(o.name))]
        return [(st, Exc('AttributeError', origin='function has no attribute %s' % name))]
    if isinstance(o, ClassV):
        v, owner = o.lookup(name)
        if v is not None:
            if isinstance(v, FuncV) and v.tag == 'classmethod':
                return [(st, v)]
            return [(st, v)]
        if name == '__name__':
            return [(st, StrV(o.name))]
        if o.model is not None and name == '__new__' and o.name in ('object', 'dict'):
            def _new(I, st, ca, _o=o):
                if not ca.plain() or len(ca.pos) != 1 or ca.kw or not isinstance(ca.pos[0], ClassV):
                    raise Unsupported('%s.__new__ called with %r' % (_o.name, ca))
                return default_new(I, st, ca.pos[0], None)
            return [(st, FuncV('%s.__new__' % o.name, _new))]
        if o.model is not None:
            return [(st, FuncV('%s.%s' % (o.name, name), _unbound_builtin(o, name), 'unbound-builtin'))]
        return [(st, Exc('AttributeError', origin='class has no attribute %s' % name))]
    if isinstance(o, ExcV) and name == 'args':
        return [(st, TupleV(o.args))]
    if isinstance(o, (Opaque, StrV, IntV, TupleV, ViewV, SeqV, FuncV, BoundV, ModuleV, NoneV, BoolV)):
        h = I.attr_hooks.get(type(o).__name__)
        if h is not None:
            r = h(I, st, o, name, node)
            if r is not None:
                return r
        raise Unsupported('attribute %s of %r' % (name, o), node)
    raise Unsupported('attribute %s of %r' % (name, o), node)


def _unbound_builtin(cls, name):
    def fn(I, st, ca):
        if not ca.pos:
            raise Unsupported('unbound builtin method %s.%s without receiver' % (cls.name, name))
        recv = ca.pos[0]
        return call_bound(I, st, BoundV(recv, name), CallArgs(ca.pos[1:], ca.kw, ca.star, ca.dstar), None,
                          as_class=cls)
    return fn


def setattr_(I, st, o, name, v, node):
    if isinstance(o, Ref):
        obj = st.get(o)
        cls = getattr(obj, 'cls', None)
        if cls is not None:
            p, owner = cls.lookup(name)
            if isinstance(p, PropertyV):
                if p.fset is None:
                    return [(st, Exc('AttributeError', origin='property without setter'))]
                return I.call(st, p.fset, CallArgs([o, v]), node)
        if hasattr(obj, 'attrs'):
            s = st.fork()
            obj2 = obj.clone()
            obj2.attrs = dict(obj.attrs)
            obj2.attrs[name] = v
            s.put(o, obj2)
            return [(s, NONE)]
        if hasattr(obj, 'setattr'):
            return obj.setattr(I, st, o, name, v, node)
        raise Unsupported('attribute store on %s' % obj.kind, node)
    if isinstance(o, ClosureV):
        s = st.fork()
        s.fattrs[(o.cid, name)] = v
        return [(s, NONE)]
    raise Unsupported('attribute store on %r' % (o,), node)


def _user_dunder(I, st, o, name):
    if isinstance(o, Ref):
        cls = getattr(st.get(o), 'cls', None)
        if cls is not None:
            v, owner = cls.lookup(name)
            if isinstance(v, ClosureV):
                return v
    return None


def getitem(I, st, o, k, node):
    u = _user_dunder(I, st, o, '__getitem__')
    if u is not None:
        return I.call(st, u, CallArgs([o, k]), node)
    if isinstance(o, Ref):
        obj = st.get(o)
        if obj.kind == 'dict':
            return dict_getitem(I, st, o, k, node)
        if obj.kind == 'concdict':
            return concdict_method(I, st, o, '__getitem__', CallArgs([k]), node)
        if obj.kind == 'list':
            i = list_index(I, obj, k, node)
            if i == 'IndexError' or i is None:
                return [(st, Exc('IndexError', origin='list index'))]
            return [(st, obj.items[i])]
        if obj.kind == 'archive':
            return archive_method(I, st, o, '__getitem__', CallArgs([k]), node)
        if hasattr(obj, 'getitem'):
            return obj.getitem(I, st, o, k, node)
    if isinstance(o, TupleV) and isinstance(k, IntV):
        c = k.concrete()
        if c is not None:
            if -len(o.items) <= c < len(o.items):
                return [(st, o.items[c])]
            return [(st, Exc('IndexError', origin='tuple index'))]
    if isinstance(o, SeqV) and isinstance(k, IntV):
        out = []
        for (s, ok) in I.branch(st, z3.And(k.term >= 0, k.term < o.length)):
            if ok:
                out.append((s, o.elem(k.term)))
            else:
                raise Unsupported('sequence index possibly out of range / negative', node)
        return out
    h = I.item_hooks.get(type(o).__name__)
    if h is not None:
        r = h(I, st, o, k, node)
        if r is not None:
            return r
    raise Unsupported('subscript of %r' % (o,), node)


def setitem(I, st, o, k, v, node):
    u = _user_dunder(I, st, o, '__setitem__')
    if u is not None:
        return I.call(st, u, CallArgs([o, k, v]), node)
    if isinstance(o, Ref):
        obj = st.get(o)
        if obj.kind == 'dict':
            return dict_setitem(I, st, o, k, v, node)
        if obj.kind == 'list':
            i = list_index(I, obj, k, node)
            if i == 'IndexError' or i is None:
                return [(st, Exc('IndexError', origin='list assignment index'))]
            s = st.fork()
            items = list(obj.items)
            items[i] = v
            s.put(o, ListObj(items, obj.role))
            return [(s, NONE)]
        if obj.kind == 'concdict' and not obj.items and not isinstance(k, StrV):
            # an empty dict literal given an arbitrary key: from here on the dict contract
            s0 = st.fork()
            s0.put(o, DictObj.empty('Val', role='fresh'))
            return dict_setitem(I, s0, o, k, v, node)
        if obj.kind == 'concdict' and isinstance(k, StrV):
            s = st.fork()
            items = dict(obj.items)
            items[k.s] = v
            s.put(o, ConcDict(items))
            return [(s, NONE)]
        if obj.kind == 'archive':
            return archive_method(I, st, o, '__setitem__', CallArgs([k, v]), node)
        if hasattr(obj, 'setitem'):
            return obj.setitem(I, st, o, k, v, node)
    raise Unsupported('item store on %r' % (o,), node)


def delitem(I, st, o, k, node):
    u = _user_dunder(I, st, o, '__delitem__')
    if u is not None:
        return I.call(st, u, CallArgs([o, k]), node)
    if isinstance(o, Ref):
        obj = st.get(o)
        if obj.kind == 'dict':
            return dict_delitem(I, st, o, k, node)
        if hasattr(obj, 'delitem'):
            return obj.delitem(I, st, o, k, node)
    raise Unsupported('item delete on %r' % (o,), node)


def call_bound(I, st, f, ca, node, as_class=None):
    recv = f.recv
    if isinstance(recv, Ref):
        obj = st.get(recv)
        if as_class is None:
            # a user subclass may override the method
            cls = getattr(obj, 'cls', None)
            if cls is not None:
                v, owner = cls.lookup(f.name)
                if isinstance(v, ClosureV):
                    return I.call(st, v, CallArgs([recv] + ca.pos, ca.kw, ca.star, ca.dstar), node)
                if isinstance(v, FuncV) and v.tag == 'method':
                    return v.fn(I, st, CallArgs([recv] + ca.pos, ca.kw, ca.star, ca.dstar))
        if hasattr(obj, 'call_method'):
            r = obj.call_method(I, st, recv, f.name, ca, node)
            if r is not None:
                return r
        if obj.kind == 'dict':
            return dict_method(I, st, recv, f.name, ca, node)
        if obj.kind == 'concdict':
            return concdict_method(I, st, recv, f.name, ca, node)
        if obj.kind == 'deque':
            return deque_method(I, st, recv, f.name, ca, node)
        if obj.kind == 'archive':
            return archive_method(I, st, recv, f.name, ca, node)
        if obj.kind == 'list':
            return list_method(I, st, recv, f.name, ca, node)
    h = I.method_hooks.get(type(recv).__name__)
    if h is not None:
        r = h(I, st, recv, f.name, ca, node)
        if r is not None:
            return r
    raise Unsupported('method %s of %r' % (f.name, recv), node)


def list_method(I, st, ref, name, ca, node):
    obj = st.get(ref)
    a = ca.pos
    if name == 'append' and len(a) == 1:
        s = st.fork()
        s.put(ref, ListObj(obj.items + (a[0],), obj.role))
        return [(s, NONE)]
    if name == '__len__' and not a:
        return [(st, IntV(len(obj.items)))]
    raise Unsupported('list method %s' % name, node)


def instantiate(I, st, cls, ca, node):
    """cls(*args): the class-instantiation protocol (__new__, then __init__ if the result is
    an instance of cls)"""
    if cls.model is not None and cls.node is None:
        return cls.model(I, st, cls, ca, node)
    new, owner = cls.lookup('__new__')
    out = []
    if isinstance(new, ClosureV):
        res = I.call(st, new, CallArgs([cls] + ca.pos, ca.kw, ca.star, ca.dstar), node)
    else:
        res = default_new(I, st, cls, node)
    for (s, inst) in res:
        if isinstance(inst, Exc):
            out.append((s, inst))
            continue
        icls = class_of(I, s, inst)
        if icls is None or not icls.issub(cls):
            out.append((s, inst))
            continue
        init, owner = icls.lookup('__init__')
        if isinstance(init, ClosureV):
            for (s1, r) in I.call(s, init, CallArgs([inst] + ca.pos, ca.kw, ca.star, ca.dstar), node):
                out.append((s1, r if isinstance(r, Exc) else inst))
        elif init is not None and isinstance(init, FuncV):
            for (s1, r) in init.fn(I, s, CallArgs([inst] + ca.pos, ca.kw, ca.star, ca.dstar)):
                out.append((s1, r if isinstance(r, Exc) else inst))
        else:
            out.append((s, inst))
    return out


def default_new(I, st, cls, node):
    """object.__new__(cls) / dict.__new__(cls) by the builtin base of cls"""
    base = None
    for c in cls.mro():
        if c.model is not None and c.node is None and c.name != 'object':
            base = c
            break
    s = st.fork()
    if base is not None and base.name == 'dict':
        return [(s, s.alloc(DictObj.empty('Val', cls=cls, role='fresh')))]
    if base is not None:
        raise Unsupported('subclass of builtin %s' % base.name, node)
    return [(s, s.alloc(InstObj(cls)))]


# ----------------------------------------------------------------------------
# operators
# ----------------------------------------------------------------------------
def _as_int(v):
    if isinstance(v, IntV):
        return v.term
    if isinstance(v, BoolV):
        return z3.If(v.term, 1, 0)
    return None


def binop(I, st, op, a, b, node):
    x, y = _as_int(a), _as_int(b)
    if x is not None and y is not None:
        if isinstance(op, ast.Add):
            return [(st, IntV(x + y))]
        if isinstance(op, ast.Sub):
            return [(st, IntV(x - y))]
        if isinstance(op, ast.Mult):
            return [(st, IntV(x * y))]
        if isinstance(op, ast.FloorDiv):
            out = []
            for (s, z) in I.branch(st, y == 0):
                if z:
                    out.append((s, Exc('ZeroDivisionError', origin='//')))
                else:
                    # Python floor division; z3 div is Euclidean: equal for positive divisors
                    q = z3.If(y > 0, x / y, (-x) / (-y))
                    out.append((s, IntV(q)))
            return out
    if isinstance(op, ast.Add) and isinstance(a, TupleV) and isinstance(b, TupleV):
        return [(st, TupleV(a.items + b.items))]
    if isinstance(op, ast.Mod) and isinstance(a, StrV):
        # string formatting: result is an opaque string (only used for messages)
        return [(st, Opaque(fresh('fmt', Val)))]
    h = I.binop_hook
    if h is not None:
        r = h(I, st, op, a, b, node)
        if r is not None:
            return r
    raise Unsupported('binary %s on %r, %r' % (op.__class__.__name__, a, b), node)


def identical(I, st, a, b):
    """a is b -> z3 Bool or python bool, None if unknown"""
    if isinstance(a, NoneV) or isinstance(b, NoneV):
        if isinstance(a, NoneV) and isinstance(b, NoneV):
            return True
        o = b if isinstance(a, NoneV) else a
        if isinstance(o, Opaque):
            return o.term == NoneC
        return False
    if isinstance(a, Ref) and isinstance(b, Ref):
        return a.oid == b.oid
    if isinstance(a, BoolV) and isinstance(b, BoolV):
        return a.term == b.term
    if isinstance(a, Opaque) and isinstance(b, Opaque):
        return None
    if (isinstance(a, Opaque) and isinstance(b, Ref)) or (isinstance(a, Ref) and isinstance(b, Opaque)):
        o, r = (a, b) if isinstance(a, Opaque) else (b, a)
        return o.term == I.ref_const(r)        # an arbitrary object may be this very object
    if type(a) is not type(b):
        if isinstance(a, Opaque) or isinstance(b, Opaque):
            return None
        return False
    if isinstance(a, (ClosureV,)):
        return a.cid == b.cid
    if isinstance(a, ClassV):
        return a is b or a.name == b.name
    if isinstance(a, FuncV):
        # modelled builtins (str, int, ...): one object per engine
        if a is b:
            return True
        return False if a.name != b.name else None
    return None


def equal(I, st, a, b, node):
    """a == b -> z3 Bool / python bool (sane __eq__ assumed: see DESIGN 3.2)"""
    xa, xb = _as_int(a), _as_int(b)
    if xa is not None and xb is not None:
        return xa == xb
    if isinstance(a, StrV) and isinstance(b, StrV):
        return a.s == b.s
    if isinstance(a, NoneV) or isinstance(b, NoneV):
        r = identical(I, st, a, b)
        if r is not None:
            return r
    if isinstance(a, TupleV) and isinstance(b, TupleV):
        if len(a.items) != len(b.items):
            return False
        parts = [equal(I, st, x, y, node) for x, y in zip(a.items, b.items)]
        parts = [z3.BoolVal(p) if isinstance(p, bool) else p for p in parts]
        return z3.And(*parts) if parts else True
    if isinstance(a, Ref) and isinstance(b, Ref) and a.oid == b.oid:
        return True
    try:
        return I.to_val(a, node) == I.to_val(b, node)
    except Unsupported:
        raise Unsupported('== between %r and %r' % (a, b), node)


def compare(I, st, op, a, b, node):
    def res(c):
        if isinstance(c, bool):
            return [(st, BoolV(c))]
        return [(st, BoolV(c))]
    if isinstance(op, (ast.Is, ast.IsNot)):
        r = identical(I, st, a, b)
        if r is None:
            raise Unsupported('identity test between %r and %r' % (a, b), node)
        if isinstance(r, bool):
            return res(r if isinstance(op, ast.Is) else not r)
        return res(r if isinstance(op, ast.Is) else z3.Not(r))
    if isinstance(op, (ast.Eq, ast.NotEq)):
        r = equal(I, st, a, b, node)
        if isinstance(r, bool):
            return res(r if isinstance(op, ast.Eq) else not r)
        return res(r if isinstance(op, ast.Eq) else z3.Not(r))
    x, y = _as_int(a), _as_int(b)
    if x is not None and y is not None:
        if isinstance(op, ast.Lt):
            return res(x < y)
        if isinstance(op, ast.LtE):
            return res(x <= y)
        if isinstance(op, ast.Gt):
            return res(x > y)
        if isinstance(op, ast.GtE):
            return res(x >= y)
    if isinstance(op, (ast.In, ast.NotIn)):
        out = []
        for (s, r) in contains(I, st, b, a, node):
            if isinstance(r, Exc):
                out.append((s, r))
            elif isinstance(op, ast.In):
                out.append((s, r))
            else:
                out.append((s, BoolV(z3.Not(r.term))))
        return out
    raise Unsupported('comparison %s on %r, %r' % (op.__class__.__name__, a, b), node)


def contains(I, st, container, item, node):
    u = _user_dunder(I, st, container, '__contains__')
    if u is not None:
        out = []
        for (s, r) in I.call(st, u, CallArgs([container, item]), node):
            if isinstance(r, Exc):
                out.append((s, r))
            else:
                out.append((s, BoolV(I.truth(s, r, node))))
        return out
    if isinstance(container, Ref):
        obj = st.get(container)
        if obj.kind == 'dict':
            return dict_contains(I, st, container, item, node)
        if obj.kind == 'concdict' and isinstance(item, StrV):
            return [(st, BoolV(item.s in obj.items))]
        if obj.kind == 'archive':
            return archive_method(I, st, container, '__contains__', CallArgs([item]), node)
        if hasattr(obj, 'contains'):
            return obj.contains(I, st, container, item, node)
    if isinstance(container, TupleV):
        parts = []
        for x in container.items:
            e = equal(I, st, item, x, node)
            parts.append(z3.BoolVal(e) if isinstance(e, bool) else e)
        return [(st, BoolV(z3.Or(*parts) if parts else z3.BoolVal(False)))]
    raise Unsupported('membership test in %r' % (container,), node)


def comprehension(I, st, eid, node, kind):
    h = I.comp_hook
    if h is not None:
        r = h(I, st, eid, node, kind)
        if r is not None:
            return r
    return static_comprehension(I, st, eid, node, kind)


def static_comprehension(I, st, eid, node, kind):
    """list / generator comprehension with ONE generator over a sequence of statically known length and no
    conditions: the element expression is evaluated for each item in a scope of its own (unrolled)"""
    if kind not in ('list', 'gen') or len(node.generators) != 1 or node.generators[0].ifs or node.generators[0].is_async:
        raise Unsupported('%s comprehension (only a single unconditional generator over a static sequence is supported)' % kind, node)
    g = node.generators[0]
    out = []
    for (s, it) in I.eval(st, eid, g.iter):
        if isinstance(it, Exc):
            out.append((s, it))
            continue
        items = I.static_seq(s, it)
        if items is None:
            raise Unsupported('%s comprehension over a sequence of unknown length' % kind, node)
        s = s.fork()
        ceid = s.new_env(eid)
        states = [(s, [])]
        for item in items:
            nxt = []
            for (s1, acc) in states:
                if isinstance(acc, Exc):
                    nxt.append((s1, acc))
                    continue
                for (s2, e2) in I.assign(s1, ceid, g.target, item):
                    if e2 is not None:
                        nxt.append((s2, e2))
                        continue
                    for (s3, v) in I.eval(s2, ceid, node.elt):
                        nxt.append((s3, v if isinstance(v, Exc) else acc + [v]))
            states = nxt
        for (s1, acc) in states:
            if isinstance(acc, Exc):
                out.append((s1, acc))
            elif kind == 'list':
                s2 = s1.fork()
                out.append((s2, s2.alloc(ListObj(tuple(acc)))))
            else:
                out.append((s1, TupleV(acc)))       # a generator that is consumed once, immediately
    return out
