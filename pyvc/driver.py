"""Discharge obligations (grouped per path and property, refined on failure), decide the verdict,
write evidence and replay files.

Exit codes (DESIGN.md 3.5): 0 held / 1 violation / 2 undecided / 3 checker broken.
"""
import collections
import json
import os
import sys
import time
import z3

VERIF = os.path.dirname(os.path.dirname(os.path.abspath(__file__)))
TIMEOUT_MS = int(os.environ.get('PYVC_TIMEOUT_MS', '20000'))


def solve(pc, goal, timeout_ms=None, extra=(), want_model=False):
    s = z3.Solver()
    s.set('timeout', timeout_ms or TIMEOUT_MS)
    for c in pc:
        s.add(c)
    for c in extra:
        s.add(c)
    s.add(z3.Not(goal))
    t0 = time.time()
    r = s.check()
    ms = (time.time() - t0) * 1000.0
    model = None
    if r == z3.sat and want_model:
        model = s.model()
    reason = s.reason_unknown() if r == z3.unknown else ''
    return str(r), ms, model, reason


GROUP_MS = int(os.environ.get('PYVC_GROUP_MS', '5000'))       # typical group query: 10-50 ms
CLAUSE_MS = int(os.environ.get('PYVC_CLAUSE_MS', '5000'))
MAX_FAILING_GROUPS = int(os.environ.get('PYVC_MAX_FAILING', '10'))


def discharge_grouped(obs, props=None, timeout_ms=None, refine_budget=3):
    """obs: list of Obligation.  Group by (func, path-instance, prop) -> one query; a group that does
    not discharge is refined clause by clause (at most refine_budget groups per (func, prop): the same
    clause usually fails on many paths, the first few identify it).  After MAX_FAILING_GROUPS failing
    groups the remaining groups are not attempted (recorded as 'skipped'): the check has failed
    anyway and the time goes into counterexamples instead.  One record per obligation instance."""
    timeout_ms = timeout_ms or GROUP_MS
    groups = collections.OrderedDict()
    for o in obs:
        if props is not None and o.prop not in props:
            continue
        key = (o.func, o.path, o.prop, id(o.pc[-1]) if o.pc else 0, len(o.pc))
        groups.setdefault(key, []).append(o)
    recs = []
    nq = 0
    refined = collections.Counter()
    failing = 0
    for key, members in groups.items():
        goals = [m.goal for m in members]
        simp = [z3.simplify(g) for g in goals]
        if all(z3.is_true(g) for g in simp):
            for m in members:
                recs.append(_rec(m, 'unsat', 0.0, 'trivial'))
            continue
        if failing >= MAX_FAILING_GROUPS:
            for m in members:
                recs.append(_rec(m, 'unrefined', 0.0, 'skipped: %d groups of this case already failed' % failing))
            continue
        if len(members) > 1:
            r, ms, _, reason = solve(members[0].pc, z3.And(*goals), timeout_ms)
            nq += 1
            if r == 'unsat':
                for m in members:
                    recs.append(_rec(m, 'unsat', ms / len(members), 'group'))
                continue
            failing += 1
            bk = (key[0], key[2])
            if refined[bk] >= refine_budget:
                for m in members:
                    recs.append(_rec(m, 'unrefined', 0.0, 'group %s (%s); refinement budget used up' % (r, reason)))
                continue
            refined[bk] += 1
        for m in members:
            if z3.is_true(z3.simplify(m.goal)):
                recs.append(_rec(m, 'unsat', 0.0, 'trivial'))
                continue
            r, ms, _, reason = solve(m.pc, m.goal, CLAUSE_MS)
            nq += 1
            if r != 'unsat' and len(members) == 1:
                failing += 1
            recs.append(_rec(m, r, ms, reason, ob=m if r != 'unsat' else None))
    return recs, nq


def _rec(o, res, ms, reason, ob=None):
    return {'name': o.name, 'prop': o.prop, 'path': o.path, 'func': o.func, 'kind': o.kind,
            'res': res, 'ms': round(ms, 2), 'reason': reason, 'info': o.info, '_ob': ob}


def small_scope_model(ob, n=5, timeout_ms=5000):
    """counter-model search with the object universe restricted to n elements (sound for
    refutation: every model found is a model of the unrestricted formula)"""
    from .symex import Val
    for k in (3, n):
        elems = [z3.Const('u%d' % i, Val) for i in range(k)]
        x = z3.Const('x!u', Val)
        extra = [z3.ForAll([x], z3.Or(*[x == e for e in elems]))]
        r, ms, model, reason = solve(ob.pc, ob.goal, timeout_ms, extra=extra, want_model=True)
        if r == 'sat':
            return model, elems, k
    return None, None, None


def write_json(path, obj):
    os.makedirs(os.path.dirname(path), exist_ok=True)
    tmp = path + '.tmp'
    with open(tmp, 'w') as f:
        json.dump(obj, f, indent=1, default=str)
    os.replace(tmp, path)
