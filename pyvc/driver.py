"""Discharge obligations (grouped per path and property, refined on failure), decide the verdict,
write evidence and replay files.

Exit codes (DESIGN.md 3.5): 0 held / 1 violation / 2 undecided / 3 checker broken.
"""
import collections
import json
import os
import sys
import time
import z3

VERIF = os.path.dirname(os.path.dirname(os.path.abspath(__file__)))
TIMEOUT_MS = int(os.environ.get('PYVC_TIMEOUT_MS', '20000'))


def solve(pc, goal, timeout_ms=None, extra=(), want_model=False, seed=None):
    s = z3.Solver()
    s.set('timeout', timeout_ms or TIMEOUT_MS)
    if seed is not None:
        s.set('smt.random_seed', seed)
    for c in pc:
        s.add(c)
    for c in extra:
        s.add(c)
    s.add(z3.Not(goal))
    t0 = time.time()
    r = s.check()
    ms = (time.time() - t0) * 1000.0
    model = None
    if r == z3.sat and want_model:
        model = s.model()
    reason = s.reason_unknown() if r == z3.unknown else ''
    return str(r), ms, model, reason


GROUP_MS = int(os.environ.get('PYVC_GROUP_MS', '5000'))       # typical group query: 10-50 ms
CLAUSE_MS = int(os.environ.get('PYVC_CLAUSE_MS', '5000'))
MAX_FAILING_GROUPS = int(os.environ.get('PYVC_MAX_FAILING', '10'))


def discharge_grouped(obs, props=None, timeout_ms=None, refine_budget=3):
    """obs: list of Obligation.  Group by (func, path-instance, prop) -> one query; a group that does
    not discharge is refined clause by clause (at most refine_budget groups per (func, prop): the same
    clause usually fails on many paths, the first few identify it).  After MAX_FAILING_GROUPS failing
    groups the remaining groups are not attempted (recorded as 'skipped'): the check has failed
    anyway and the time goes into counterexamples instead.  One record per obligation instance."""
    timeout_ms = timeout_ms or GROUP_MS
    groups = collections.OrderedDict()
    for o in obs:
        if props is not None and o.prop not in props:
            continue
        key = (o.func, o.path, o.prop, id(o.pc[-1]) if o.pc else 0, len(o.pc), o.info.get('deny'))
        groups.setdefault(key, []).append(o)
    recs = []
    nq = 0
    refined = collections.Counter()
    failing = 0
    for key, members in groups.items():
        goals = [m.goal for m in members]
        simp = [z3.simplify(g) for g in goals]
        if all(z3.is_true(g) for g in simp):
            for m in members:
                recs.append(_rec(m, 'unsat', 0.0, 'trivial'))
            continue
        if failing >= MAX_FAILING_GROUPS:
            for m in members:
                recs.append(_rec(m, 'unrefined', 0.0, 'skipped: %d groups of this case already failed' % failing))
            continue
        if len(members) > 1:
            g = Group(members)
            r, ms, reason, n = prove(g, timeout_ms, quick=True)
            nq += n
            if r == 'unsat':
                for m in members:
                    recs.append(_rec(m, 'unsat', ms / len(members), 'group:' + reason))
                continue
            bk = (key[0], key[2])
            if refined[bk] >= refine_budget:
                failing += 1
                for m in members:
                    recs.append(_rec(m, 'unrefined', 0.0, 'group %s (%s); refinement budget used up' % (r, reason)))
                continue
        anybad = False
        for m in members:
            if z3.is_true(z3.simplify(m.goal)):
                recs.append(_rec(m, 'unsat', 0.0, 'trivial'))
                continue
            r, ms, reason, n = prove(m, CLAUSE_MS)
            nq += n
            if r != 'unsat':
                anybad = True
            recs.append(_rec(m, r, ms, reason, ob=m if r != 'unsat' else None))
        # a group whose conjunction timed out but whose clauses all discharge one by one is not a failure
        if anybad:
            failing += 1
            if len(members) > 1:
                refined[(key[0], key[2])] += 1
    return recs, nq


class Group(object):
    """conjunction of the goals of obligations that share one path condition"""

    def __init__(self, members):
        self.pc = members[0].pc
        self.goal = z3.And(*[m.goal for m in members])
        self.cuts = getattr(members[0], 'cuts', ())
        self.info = members[0].info


def filtered_pc(pc, goal, deny):
    """drop the *quantified* premises that mention a denied state component (a symbol whose name matches
    the regular expression `deny`) unless the goal mentions it too.  Dropping premises is always sound for
    a proof; ground premises (path conditions) are cheap and all kept."""
    import re
    from .symex import _has_quantifier
    rx = re.compile(deny)
    gs = symbols_of(goal)
    out = []
    for p in pc:
        if _has_quantifier(p):
            bad = [n for n in symbols_of(p) if rx.match(n) and n not in gs]
            if bad:
                continue
        out.append(p)
    return out


def prove(ob, timeout_ms, quick=False):
    """pc => goal by a sequence of sound strategies; -> (result, ms, how, number of queries).
    1. premises restricted to the state components the clause reads (info['deny']), 2. the full path
    condition, 3. prefixes of the path condition that end at a loop-havoc cut point, 4. other solver seeds.
    `unsat` from any strategy is a proof (premises are only ever dropped).  `sat` is reported only for the
    full path condition."""
    t0 = time.time()
    n = 0
    deny = ob.info.get('deny') if ob.info else None
    variants = []
    if deny:
        variants.append(('reads', filtered_pc(ob.pc, ob.goal, deny)))
    variants.append(('full', ob.pc))
    last = ('unknown', '')
    for how, pc in variants:
        r, ms, _, reason = solve(pc, ob.goal, timeout_ms)
        n += 1
        if r == 'unsat':
            return r, (time.time() - t0) * 1000.0, how, n
        if how == 'full':
            last = (r, reason)
    if quick:
        return last[0], (time.time() - t0) * 1000.0, last[1], n
    cuts = getattr(ob, 'cuts', ())
    if cuts:
        alt = solve_with_cuts(ob, timeout_ms, deny)
        n += 1
        if alt is not None:
            return alt[0], (time.time() - t0) * 1000.0, alt[2], n
    if last[0] != 'sat':
        pc = variants[0][1]
        for seed in (1, 2, 3):
            r, ms, _, reason = solve(pc, ob.goal, timeout_ms, seed=seed)
            n += 1
            if r == 'unsat':
                return r, (time.time() - t0) * 1000.0, '%s/seed%d' % (variants[0][0], seed), n
    return last[0], (time.time() - t0) * 1000.0, last[1], n


_SYMS = {}


def symbols_of(e):
    """names of the uninterpreted constants / functions occurring in a term (cached by ast id)"""
    k = e.get_id()
    r = _SYMS.get(k)
    if r is None:
        r = set()
        todo = [e]
        seen = set()
        while todo:
            t = todo.pop()
            i = t.get_id()
            if i in seen:
                continue
            seen.add(i)
            if z3.is_quantifier(t):
                todo.append(t.body())
                continue
            if z3.is_app(t):
                d = t.decl()
                if d.kind() == z3.Z3_OP_UNINTERPRETED:
                    r.add(d.name())
                todo.extend(t.children())
        _SYMS[k] = r
    return r


def solve_with_cuts(ob, timeout_ms, deny=None):
    """pc => goal, tried on prefixes of the path condition that end at a loop-havoc cut point.
    Dropping premises is always sound for a proof; a prefix is tried only when the goal mentions no
    symbol that is introduced after the cut (then the later premises are about other things: the
    query is the one a path without the later loop would have produced)."""
    gs = symbols_of(ob.goal)
    for c in sorted(set(ob.cuts), reverse=True):
        if c <= 0 or c >= len(ob.pc):
            continue
        before = set()
        for p in ob.pc[:c]:
            before |= symbols_of(p)
        later = set()
        for p in ob.pc[c:]:
            later |= symbols_of(p)
        if gs & (later - before):
            continue
        pc = ob.pc[:c]
        if deny:
            pc = filtered_pc(pc, ob.goal, deny)
        r, ms, _, reason = solve(pc, ob.goal, timeout_ms)
        if r == 'unsat':
            return r, ms, 'cut@%d' % c
    return None


def _rec(o, res, ms, reason, ob=None):
    return {'name': o.name, 'prop': o.prop, 'path': o.path, 'func': o.func, 'kind': o.kind,
            'res': res, 'ms': round(ms, 2), 'reason': reason, 'info': o.info, '_ob': ob}


def small_scope_model(ob, n=5, timeout_ms=5000):
    """counter-model search with the object universe restricted to n elements (sound for
    refutation: every model found is a model of the unrestricted formula)"""
    from .symex import Val
    for k in (3, n):
        elems = [z3.Const('u%d' % i, Val) for i in range(k)]
        x = z3.Const('x!u', Val)
        extra = [z3.ForAll([x], z3.Or(*[x == e for e in elems]))]
        r, ms, model, reason = solve(ob.pc, ob.goal, timeout_ms, extra=extra, want_model=True)
        if r == 'sat':
            return model, elems, k
    return None, None, None


def write_json(path, obj):
    os.makedirs(os.path.dirname(path), exist_ok=True)
    tmp = path + '.tmp'
    with open(tmp, 'w') as f:
        json.dump(obj, f, indent=1, default=str)
    os.replace(tmp, path)
