"""Child process of the C13 check: perform ONE archive operation with every file-system / database primitive that
klepto reaches counted, and die (os._exit) immediately before the n-th one -- optionally after writing only half of
the data of a write.  With kill index -1 the operation runs to completion and the list of effects is printed.

usage: python -m bounded.crash_child <config id> <root> <op json> <kill index> [half]

Counted primitives: os.remove/unlink/rename/renames/replace/mkdir/makedirs/rmdir, shutil.rmtree's own calls go through
those; open(..., 'w'/'wb'/'a'...) returns a proxy whose write() and close() are counted; sqlite3 connections are
proxied so that every cursor.execute / executescript and every commit is counted.
"""
import builtins
import json
import os
import sys

EFFECTS = []
KILL = -1
HALF = False


def _hit(label, partial=None):
    i = len(EFFECTS)
    EFFECTS.append(label)
    if i == KILL:
        if partial is not None and HALF:
            partial()
        sys.stdout.flush()
        os._exit(17)


def _wrap_os(name):
    real = getattr(os, name)

    def w(*a, **k):
        _hit('%s %s' % (name, ' -> '.join(os.path.basename(str(x)) for x in a[:2] if isinstance(x, (str, bytes)))))
        return real(*a, **k)
    w.__name__ = name
    setattr(os, name, w)


class FileProxy(object):
    def __init__(self, f, path):
        self._f, self._path = f, path

    def write(self, data):
        def partial():
            self._f.write(data[:len(data) // 2])
            self._f.flush()
        _hit('write %s (%d bytes)' % (os.path.basename(str(self._path)), len(data)), partial)
        return self._f.write(data)

    def close(self):
        _hit('close %s' % os.path.basename(str(self._path)))
        return self._f.close()

    def __enter__(self):
        return self

    def __exit__(self, *exc):
        self.close()
        return False

    def __getattr__(self, n):
        return getattr(self._f, n)

    def __iter__(self):
        return iter(self._f)


def install():
    for n in ('remove', 'unlink', 'rename', 'renames', 'replace', 'mkdir', 'makedirs', 'rmdir'):
        _wrap_os(n)
    real_open = builtins.open

    def open_(file, mode='r', *a, **k):
        if isinstance(file, (str, bytes)) and any(c in mode for c in 'wax+'):
            _hit('open-for-write %s' % os.path.basename(str(file)))
            return FileProxy(real_open(file, mode, *a, **k), file)
        return real_open(file, mode, *a, **k)
    builtins.open = open_
    import io
    io.open = open_
    import sqlite3
    real_connect = sqlite3.connect

    class Cur(object):
        def __init__(self, c):
            self._c = c

        def execute(self, sql, *a):
            if not sql.lstrip().lower().startswith('select'):
                _hit('sql %s' % sql.split('(')[0][:40])
            return self._c.execute(sql, *a)

        def executescript(self, sql):
            _hit('sqlscript %s' % sql[:40])
            return self._c.executescript(sql)

        def __getattr__(self, n):
            return getattr(self._c, n)

        def __iter__(self):
            return iter(self._c)

    class Conn(object):
        def __init__(self, c):
            self._c = c

        def cursor(self):
            return Cur(self._c.cursor())

        def commit(self):
            _hit('commit')
            return self._c.commit()

        def __getattr__(self, n):
            return getattr(self._c, n)

    def connect(*a, **k):
        return Conn(real_connect(*a, **k))
    sqlite3.connect = connect


def perform(cid, root, op):
    from bounded import archives as AR
    kind = op['op']
    if kind == 'open':
        AR.open_archive(cid, root)         # merely opening an existing archive
        return
    if kind == 'dump':
        c = AR.open_archive(cid, root, cached=True)
        for k, v in op['items']:
            c[_key(k)] = v
        c.dump()
        return
    a = AR.open_archive(cid, root)
    # operations the same handle COMPLETED before the one that is interrupted (e.g. a setdefault whose row must be durable by then)
    for b in op.get('before', []):
        _apply(a, b)
    global PREFIX
    PREFIX = len(EFFECTS)
    if op.get('fsize'):
        # the KERNEL kills this process (SIGXFSZ) when a write would grow a file beyond the limit: a crash point inside the
        # library's / sqlite's own write calls, which no Python-level primitive brackets
        import resource
        import signal
        signal.signal(signal.SIGXFSZ, signal.SIG_DFL)
        resource.setrlimit(resource.RLIMIT_FSIZE, (op['fsize'], op['fsize']))
    _apply(a, op)


PREFIX = 0


def _apply(a, op):
    kind = op['op']
    if kind == 'set':
        a[_key(op['key'])] = op['value'] * op.get('repeat', 1)
    elif kind == 'setdefault':
        a.setdefault(_key(op['key']), op['value'])
    elif kind == 'update':
        a.update({_key(k): v for k, v in op['items']})
    elif kind == 'del':
        del a[_key(op['key'])]
    elif kind == 'pop':
        a.pop(_key(op['key']), None)
    elif kind == 'popkeys':
        a.popkeys([_key(k) for k in op['keys']], None)
    elif kind == 'clear':
        a.clear()
    else:
        raise ValueError(kind)


def _key(k):
    return tuple(k) if isinstance(k, list) else k


if __name__ == '__main__':
    cid, root, opj, kill = sys.argv[1], sys.argv[2], sys.argv[3], int(sys.argv[4])
    HALF = len(sys.argv) > 5 and sys.argv[5] == 'half'
    if '' not in sys.path:
        sys.path.insert(0, '')
    import klepto.archives   # noqa: import everything before the interceptors go in
    from bounded import archives as AR
    AR.open_archive  # noqa
    op = json.loads(opj)
    # opening the handle is part of the operation (the constructor may rewrite the archive): count from here
    install()
    KILL = kill
    perform(cid, root, op)
    print('PREFIX %d' % PREFIX)
    print('EFFECTS ' + json.dumps(EFFECTS))
