"""Child process of the C04/C13 checks: open a fresh handle on an archive in a fresh interpreter and print its
contents (repr of the sorted (repr(key), type name, repr(value)) triples), or the exception raised while reading.
usage: python -m bounded.archive_read <config id> <root> <name>"""
import sys

if __name__ == '__main__':
    if '' not in sys.path:
        sys.path.insert(0, '')
    from bounded import archives as AR
    cid, root, name = sys.argv[1:4]
    try:
        a = AR.open_archive(cid, root, name)
        n = len(a)
        items = sorted((repr(k), type(k).__name__, repr(a[k])) for k in list(a.keys()))
        print('OK %d %r' % (n, items))
    except BaseException as e:      # noqa
        print('ERR %s: %s' % (e.__class__.__name__, str(e)[:200]))
