"""Work units of the bounded stand-ins for C09 (canonicalisation), C10 (discrimination) and C11 (ignore)."""
import itertools

import deal

from . import shapes as S
from . import keypath as K


def _scope(mode):
    # (npos, nkwo), maxpos, maxkw
    return ((3, 2), 4, 3) if mode == 'thorough' else ((2, 1), 3, 2)


def unit_list(mode):
    (npos, nkwo), _, _ = _scope(mode)
    return [(mode, i) for i in range(len(S.shapes(npos, nkwo)))]


def _callables(shape, entered, mode):
    return S.make_callables(shape, entered, partials=True)


def klass_features(shape, form, cfg, calls=()):
    kind, flat, typed, sentinel = cfg
    if kind in ('picklemap:pickle', 'picklemap:dill') and any(isinstance(c, dict) and c.get('first_two_slots_are_one_object') for c in calls):
        return 'picklemap with a pickle/dill serializer: the key records whether two equal arguments are one object'
    return '%s %s%s%s' % (kind, 'flat' if flat else 'non-flat', ' typed' if typed else '', ' sentinel' if sentinel else '')


# ---- C09 ------------------------------------------------------------------------------------------------
def run_c09(unit):
    mode, idx = unit
    (npos, nkwo), maxpos, maxkw = _scope(mode)
    shape = S.shapes(npos, nkwo)[idx]
    entered = []
    cfgs = K.configs(include_chains=True)
    kms = [K.make_keymap(c) for c in cfgs]
    out = {'evaluations': 0, 'distinct': 0, 'violations': [], 'samples': [], 'counters': {'bindings': 0, 'calls': 0}}
    _, I, _ = K._mods()
    seen_classes = set()
    for ci, (form, c, desc) in enumerate(_callables(shape, entered, mode)):
        tables = [K.Table() for _ in cfgs]
        for (args, kwi) in _with_shared_objects(_with_spelled_defaults(c, S.call_forms(shape, maxpos, maxkw, orders=True))):
            ok, got = S.really_binds(c, entered, args, kwi)
            if not ok:
                continue
            out['counters']['calls'] += 1
            b = K.freeze(got, strict=True)
            call = _enc_call(args, kwi)
            try:
                a2, k2 = I._keygen(c, (), *args, **dict(kwi))
            except Exception as e:      # noqa
                _viol(out, seen_classes, 'keygen_total', 'key generation raises for a valid call: %s' % e.__class__.__name__,
                      '%s: _keygen raised %r for %s' % (desc, e, K.call_repr(args, kwi)),
                      {'prop': 'C09', 'mode': mode, 'shape': idx, 'callable': ci, 'cfg': None, 'calls': [call], 'desc': desc})
                continue
            for j, km in enumerate(kms):
                out['evaluations'] += 1
                try:
                    key = K.keyimage(km(*a2, **k2))
                except Exception as e:      # noqa
                    _viol(out, seen_classes, 'keymap_total', '%s: keymap raises: %s' % (klass_features(shape, form, cfgs[j]), e.__class__.__name__),
                          '%s: keymap %r raised %r for %s' % (desc, cfgs[j], e, K.call_repr(args, kwi)),
                          {'prop': 'C09', 'mode': mode, 'shape': idx, 'callable': ci, 'cfg': list(cfgs[j]), 'calls': [call], 'desc': desc})
                    continue
                try:
                    other = K.record_canonical(tables[j], b, key, call)
                except deal.PostContractError as e:
                    other = tables[j].by_binding[b][1]
                    _viol(out, seen_classes, 'canonical', klass_features(shape, form, cfgs[j], [call, other]),
                          '%s, keymap %r: %s and %s bind the same values but get different keys'
                          % (desc, cfgs[j], K.call_repr(args, kwi), _call_text(other)),
                          {'prop': 'C09', 'mode': mode, 'shape': idx, 'callable': ci, 'cfg': list(cfgs[j]), 'calls': [call, other], 'desc': desc})
        out['counters']['bindings'] += len(tables[0].by_binding)
        out['distinct'] += len(tables[0].by_binding) * len(cfgs)
        if not out['samples'] and tables[0].by_binding:
            out['samples'].append({'callable': desc, 'distinct_bindings': len(tables[0].by_binding), 'keymap_configurations': len(cfgs)})
    return out


def _with_spelled_defaults(c, forms):
    """every call form, and the same form with the arguments that go to defaulted parameters set to the default
    itself (so that 'default omitted' and 'default spelled out' meet in one binding)"""
    import inspect
    try:
        ps = [p for p in inspect.signature(c).parameters.values()]
    except (TypeError, ValueError):
        ps = []
    posd = [(p.default if p.default is not p.empty else None, p.default is not p.empty) for p in ps
            if p.kind in (p.POSITIONAL_ONLY, p.POSITIONAL_OR_KEYWORD)]
    kwd = {p.name: p.default for p in ps if p.default is not p.empty and p.kind in (p.POSITIONAL_OR_KEYWORD, p.KEYWORD_ONLY)}
    for (args, kwi) in forms:
        yield args, kwi
        a2 = tuple(posd[i][0] if i < len(posd) and posd[i][1] else v for i, v in enumerate(args))
        k2 = [(k, kwd.get(k, v)) for k, v in kwi]
        if a2 != args or k2 != kwi:
            yield a2, k2


def _with_shared_objects(forms):
    """every call form, and -- for forms with at least two argument slots -- the same form with its first two slots holding
    (i) one and the same object and (ii) two equal but distinct objects: the calls bind the same values, so they share a key"""
    seen = set()
    for (args, kwi) in forms:
        yield args, kwi
        shape_id = (len(args), tuple(k for k, _ in kwi))
        if len(args) + len(kwi) < 2 or shape_id in seen:
            continue
        seen.add(shape_id)
        one = (7.5, 'shared')
        for second in (one, tuple([7.5, 'shared'])):
            vals = [one, second]
            a2, k2 = list(args), list(kwi)
            for i in range(len(a2)):
                if vals:
                    a2[i] = vals.pop(0)
            for i in range(len(k2)):
                if vals:
                    k2[i] = (k2[i][0], vals.pop(0))
            yield tuple(a2), k2


def _call_text(call):
    args = tuple(_dec(x) for x in call['args'])
    kwi = [(k, _dec(v)) for k, v in call['kw']]
    return K.call_repr(args, kwi)


def _viol(out, seen, clause, klass, message, witness):
    # keep one witness per class and unit (the runner aggregates across units)
    out['violations'].append({'clause': clause, 'klass': klass, 'message': message, 'witness': witness}) if (clause, klass) not in seen else None
    if (clause, klass) in seen:
        out['counters']['more_in_class'] = out['counters'].get('more_in_class', 0) + 1
    seen.add((clause, klass))


def replay_c09(w):
    (npos, nkwo), maxpos, maxkw = _scope(w['mode'])
    shape = S.shapes(npos, nkwo)[w['shape']]
    entered = []
    form, c, desc = _callables(shape, entered, w['mode'])[w['callable']]
    _, I, _ = K._mods()
    keys = []
    for call in w['calls']:
        args, kwi = _dec_call(call)
        ok, got = S.really_binds(c, entered, args, kwi)
        try:
            a2, k2 = I._keygen(c, (), *args, **dict(kwi))
            if w['cfg'] is None:
                keys.append(('binding', K.freeze(got, True), 'key', 'n/a'))
                continue
            key = K.make_keymap(tuple(w['cfg']))(*a2, **k2)
        except Exception as e:      # noqa
            return True, '%s: key path raised %r for %s' % (desc, e, K.call_repr(args, kwi))
        keys.append((K.freeze(got, True), K.keyimage(key), K.call_repr(args, kwi), repr(key)[:120]))
    if len(keys) == 2 and keys[0][0] == keys[1][0] and keys[0][1] != keys[1][1]:
        return True, '%s with keymap %r: %s -> %s but %s -> %s (same binding)' % (desc, w['cfg'], keys[0][2], keys[0][3], keys[1][2], keys[1][3])
    return False, '%s with keymap %r: keys agree' % (desc, w['cfg'])


# ---- C10 ------------------------------------------------------------------------------------------------
def run_c10(unit):
    mode, idx = unit
    (npos, nkwo), maxpos, maxkw = _scope(mode)
    shape = S.shapes(npos, nkwo)[idx]
    entered = []
    cfgs = [c for c in K.configs(include_builtin_hash=False, include_named_encoding=True, include_chains=True) if K.info_preserving(c, shape)]
    kms = [K.make_keymap(c) for c in cfgs]
    out = {'evaluations': 0, 'distinct': 0, 'violations': [], 'samples': [], 'counters': {'calls': 0}}
    _, I, _ = K._mods()
    seen = set()
    for ci, (form, c, desc) in enumerate(_callables(shape, entered, mode)):
        tables = [K.Table() for _ in cfgs]
        forms = [(a, k, True) for (a, k) in S.call_forms(shape, maxpos, maxkw, orders=False)]
        if form == 'sibling-closure':
            # the sibling made by the same factory has OTHER defaults: a call that spells out the sibling's default binds a
            # different value than the call that omits the argument, so the two must not share a key
            names = shape.names()
            for (a, k, _) in list(forms):
                a2 = tuple(S.DEF[names[i]] if i < shape.npos and i >= shape.npos - shape.ndef else v for i, v in enumerate(a))
                k2 = [(n, S.DEF[n] if n in S.DEF and (n in [x for (x, d) in shape.kwo if d] or (n in names[:shape.npos] and names.index(n) >= shape.npos - shape.ndef)) else v)
                      for (n, v) in k]
                if a2 != a or k2 != k:
                    forms.append((a2, k2, False))
        for (args0, kwi0, vary) in forms:
            for (args, kwi) in (K.value_variants(args0, kwi0) if vary else [(args0, kwi0)]):
                ok, got = S.really_binds(c, entered, args, kwi)
                if not ok:
                    continue
                out['counters']['calls'] += 1
                call = (list(map(repr, args)), [(k, repr(v)) for k, v in kwi])
                try:
                    a2, k2 = I._keygen(c, (), *args, **dict(kwi))
                except Exception:      # reported under C09
                    continue
                bl, bs = K.freeze(got, strict=False), K.freeze(got, strict=True)
                for j, km in enumerate(kms):
                    out['evaluations'] += 1
                    typed = cfgs[j][2]
                    try:
                        key = K.keyimage(km(*a2, **k2))
                    except Exception:
                        continue
                    b = bs if typed else bl
                    try:
                        K.record_discriminating(tables[j], b, key, call)
                    except deal.PostContractError:
                        other = tables[j].by_key[key][1]
                        lone = (len(a2) == 1 and not k2)
                        _viol(out, seen, 'discriminating' if not typed else 'typed_discriminating', klass_c10(shape, form, cfgs[j], lone),
                              '%s, keymap %r: calls %r and %r bind %s values but share the key %r'
                              % (desc, cfgs[j], call, other, 'differently typed' if typed else 'unequal', km(*a2, **k2)),
                              {'prop': 'C10', 'mode': mode, 'shape': idx, 'callable': ci, 'cfg': list(cfgs[j]), 'desc': desc,
                               'calls': [_enc_call(args, kwi), other if isinstance(other, dict) else _enc_other(other)]})
        out['distinct'] += sum(len(t.by_key) for t in tables)
        if not out['samples'] and tables:
            out['samples'].append({'callable': desc, 'distinct_keys_first_config': len(tables[0].by_key), 'configs': len(cfgs)})
    return out


def _enc_call(args, kwi):
    d = {'args': [_enc(v) for v in args], 'kw': [(k, _enc(v)) for k, v in kwi]}
    slots = list(args) + [v for _, v in kwi]
    if len(slots) >= 2 and slots[0] is slots[1] and isinstance(slots[0], tuple):
        d['first_two_slots_are_one_object'] = True
    return d


def _dec_call(call):
    args = [_dec(x) for x in call['args']]
    kwi = [(k, _dec(v)) for k, v in call['kw']]
    if call.get('first_two_slots_are_one_object'):
        if len(args) >= 2:
            args[1] = args[0]
        elif len(args) == 1:
            kwi[0] = (kwi[0][0], args[0])
        else:
            kwi[1] = (kwi[1][0], kwi[0][1])
    return tuple(args), kwi


def _enc_other(call):
    return {'repr': call}


def _enc(v):
    if isinstance(v, S.Tok):
        return {'tok': v.tag}
    if isinstance(v, bytes):
        return {'bytes': v.decode()}
    if isinstance(v, tuple):
        return {'tuple': [_enc(x) for x in v]}
    return {'lit': repr(v)}


def _dec(d):
    if 'tok' in d:
        return S.Tok(d['tok'])
    if 'bytes' in d:
        return d['bytes'].encode()
    if 'tuple' in d:
        return tuple(_dec(x) for x in d['tuple'])
    return eval(d['lit'], {})


def klass_c10(shape, form, cfg, lone):
    kind, flat, typed, sentinel = cfg
    if (kind == 'stringmap' or kind.startswith('chain:stringmap>')) and flat and not typed and lone:
        # keymap.encode unwraps a 1-tuple of a "fast type" before the outer encoder runs; str() then merges 1 and '1'
        return 'flat stringmap: a lone extra positional of a fast type is unwrapped before str()'
    return '%s %s%s%s; %s' % (kind, 'flat' if flat else 'non-flat', ' typed' if typed else '', ' sentinel' if sentinel else '',
                              'signature with *args' if shape.varargs else 'no *args')


def replay_c10(w):
    (npos, nkwo), maxpos, maxkw = _scope(w['mode'])
    shape = S.shapes(npos, nkwo)[w['shape']]
    entered = []
    form, c, desc = _callables(shape, entered, w['mode'])[w['callable']]
    _, I, _ = K._mods()
    cfg = tuple(w['cfg'])
    km = K.make_keymap(cfg)
    first = w['calls'][0]
    args = tuple(_dec(x) for x in first['args'])
    kwi = [(k, _dec(v)) for k, v in first['kw']]
    ok, got = S.really_binds(c, entered, args, kwi)
    a2, k2 = I._keygen(c, (), *args, **dict(kwi))
    key = K.keyimage(km(*a2, **k2))
    b = K.freeze(got, strict=cfg[2])
    # search the variants of the same scope for another binding with this key
    for (args0, kwi0) in S.call_forms(shape, maxpos, maxkw, orders=False):
        for (a, k) in K.value_variants(args0, kwi0):
            ok2, got2 = S.really_binds(c, entered, a, k)
            if not ok2:
                continue
            try:
                a3, k3 = I._keygen(c, (), *a, **dict(k))
                key2 = K.keyimage(km(*a3, **k3))
            except Exception:
                continue
            if key2 == key and K.freeze(got2, strict=cfg[2]) != b:
                return True, '%s with keymap %r: %s and %s bind different values but share the key %r' % (
                    desc, cfg, K.call_repr(args, kwi), K.call_repr(a, k), km(*a2, **k2))
    return False, '%s with keymap %r: no other binding shares the key of %s' % (desc, cfg, K.call_repr(args, kwi))


# ---- C11 ------------------------------------------------------------------------------------------------
MARK = S.Tok('<ignored>')


def ignore_specs(shape, maxsize):
    items = list(shape.names()) + [0, 1, 2] + ['*', '**', S.FOREIGN] + [-1, 7]      # (a negative or too large index selects nothing)
    out = []
    for k in range(1, maxsize + 1):
        out += list(itertools.combinations(items, k))
    return out


def _visible_positional(shape, form, nfixed):
    return [S.POS_NAMES[i] for i in range(shape.npos)][nfixed:]


def project(shape, pnames, got, spec):
    """what a call binds, with the arguments the ignore specification selects blanked out"""
    names = set(i for i in spec if isinstance(i, str) and i not in ('*', '**'))
    idx = set(i for i in spec if isinstance(i, int))
    sel = set(names)
    for i in idx:
        if 0 <= i < len(pnames):
            sel.add(pnames[i])
    out = {}
    for k, v in got.items():
        if k == '*':
            if '*' in spec:
                out[k] = ()
            else:
                out[k] = tuple(MARK if (len(pnames) + j) in idx else x for j, x in enumerate(v))
        elif k == '**':
            if '**' in spec:
                out[k] = {}
            else:
                out[k] = {e: (MARK if e in names else x) for e, x in v.items()}
        else:
            out[k] = MARK if k in sel else v
    return out


def slot_variants(args, kwitems):
    yield args, kwitems
    for i in range(len(args)):
        yield args[:i] + (S.Tok('alt'),) + args[i + 1:], kwitems
    for i in range(len(kwitems)):
        yield args, kwitems[:i] + [(kwitems[i][0], S.Tok('alt'))] + kwitems[i + 1:]


def _c11_callables(shape, entered):
    out = []
    for (form, c, desc) in S.make_callables(shape, entered, partials=True):
        nfixed = 0
        if form.startswith('partial'):
            if c.keywords:
                continue            # partials that fix keywords re-order the visible signature: outside this scope
            nfixed = len(c.args)
            if nfixed > shape.npos:
                continue
        out.append((form, c, desc, nfixed))
    return out


def klass_c11(shape, spec, kwi, which):
    kwo = set(n for (n, d) in shape.kwo)
    if '**' in spec and kwo & set(k for k, _ in kwi):
        return "'**' in ignore and a keyword-only parameter is passed by keyword (treated as an extra keyword and dropped)"
    return '%s; ignore=%r on %s' % (which, tuple(spec), shape.ident())


def run_c11(unit):
    mode, idx = unit
    (npos, nkwo), maxpos, maxkw = _scope(mode)
    maxkw = 2
    shape = S.shapes(npos, nkwo)[idx]
    entered = []
    out = {'evaluations': 0, 'distinct': 0, 'violations': [], 'samples': [], 'counters': {'specs': 0}}
    _, I, _ = K._mods()
    seen = set()
    specs = ignore_specs(shape, 2)
    for ci, (form, c, desc, nfixed) in enumerate(_c11_callables(shape, entered)):
        pnames = _visible_positional(shape, form, nfixed)
        calls = []
        for (args0, kwi0) in S.call_forms(shape, maxpos, maxkw, orders=False):
            for (args, kwi) in slot_variants(args0, kwi0):
                ok, got = S.really_binds(c, entered, args, kwi)
                if ok:
                    calls.append((args, kwi, got))
        for spec in specs:
            out['counters']['specs'] += 1
            by_proj, by_key = {}, {}
            for (args, kwi, got) in calls:
                out['evaluations'] += 1
                try:
                    a2, k2 = I._keygen(c, spec, *args, **dict(kwi))
                except Exception as e:      # noqa
                    _viol(out, seen, 'keygen_total', 'raises %s; ignore=%r' % (e.__class__.__name__, spec),
                          '%s: _keygen(ignore=%r) raised %r for %s' % (desc, spec, e, K.call_repr(args, kwi)),
                          {'prop': 'C11', 'mode': mode, 'shape': idx, 'callable': ci, 'spec': list(spec), 'call': _enc_call(args, kwi), 'desc': desc})
                    continue
                g = K.freeze((a2, k2), strict=True)
                p = K.freeze(project(shape, pnames, got, spec), strict=True)
                q = by_proj.setdefault(p, (g, args, kwi))
                if q[0] != g:
                    _viol(out, seen, 'ignored_never_influence', klass_c11(shape, spec, list(kwi) + list(q[2]), 'calls that agree outside the ignored arguments get different keys'),
                          '%s, ignore=%r: %s and %s differ only in ignored arguments but _keygen gives %r vs %r'
                          % (desc, spec, K.call_repr(args, kwi), K.call_repr(q[1], q[2]), (a2, k2), '...'),
                          {'prop': 'C11', 'mode': mode, 'shape': idx, 'callable': ci, 'spec': list(spec), 'call': _enc_call(args, kwi),
                           'other': _enc_call(q[1], q[2]), 'desc': desc, 'kind': 'split'})
                r = by_key.setdefault(g, (p, args, kwi))
                if r[0] != p:
                    _viol(out, seen, 'others_still_discriminate', klass_c11(shape, spec, list(kwi) + list(r[2]), 'calls that differ in a non-ignored argument share a key'),
                          '%s, ignore=%r: %s and %s differ in an argument that is not ignored but _keygen gives the same %r'
                          % (desc, spec, K.call_repr(args, kwi), K.call_repr(r[1], r[2]), (a2, k2)),
                          {'prop': 'C11', 'mode': mode, 'shape': idx, 'callable': ci, 'spec': list(spec), 'call': _enc_call(args, kwi),
                           'other': _enc_call(r[1], r[2]), 'desc': desc, 'kind': 'merge'})
            out['distinct'] += len(by_proj)
            if form == 'function':
                # the same relation for the key the real decorator computes (its ignore handling sits in front of _keygen)
                _c11_decorator_level(out, seen, c, desc, spec, calls, shape, pnames, mode, idx, ci)
        if not out['samples'] and calls:
            out['samples'].append({'callable': desc, 'ignore_specs': len(specs), 'valid_calls': len(calls)})
    _c11_explicit_instance(out, seen, shape, entered, maxpos, maxkw, mode, idx)
    return out


def _c11_decorator_level(out, seen, c, desc, spec, calls, shape, pnames, mode, idx, ci):
    import klepto
    from klepto.keymaps import keymap as rawmap
    try:
        # a single selector may be given bare (ignore=0, ignore='a') instead of as a tuple
        w = klepto.lru_cache(ignore=spec[0] if len(spec) == 1 else spec, keymap=rawmap(flat=False))(c)
    except Exception as e:      # noqa
        _viol(out, seen, 'decorator_total', 'decorating raises %s; ignore=%r' % (e.__class__.__name__, spec), '%s: inf_cache(ignore=%r) raised %r' % (desc, spec, e),
              {'prop': 'C11', 'mode': mode, 'shape': idx, 'callable': ci, 'spec': list(spec), 'desc': desc, 'kind': 'decorator'})
        return
    by_proj, by_key = {}, {}
    for (args, kwi, got) in calls:
        out['evaluations'] += 1
        try:
            g = K.freeze(w.key(*args, **dict(kwi)), strict=True)
        except Exception as e:      # noqa
            _viol(out, seen, 'decorator_total', 'key() raises %s; ignore=%r' % (e.__class__.__name__, spec), '%s: inf_cache(ignore=%r).key raised %r for %s' % (desc, spec, e, K.call_repr(args, kwi)),
                  {'prop': 'C11', 'mode': mode, 'shape': idx, 'callable': ci, 'spec': list(spec), 'call': _enc_call(args, kwi), 'desc': desc, 'kind': 'decorator'})
            continue
        p = K.freeze(project(shape, pnames, got, spec), strict=True)
        q = by_proj.setdefault(p, (g, args, kwi))
        r = by_key.setdefault(g, (p, args, kwi))
        if q[0] != g or r[0] != p:
            o = q if q[0] != g else r
            _viol(out, seen, 'decorator_key_' + ('ignored_never_influence' if q[0] != g else 'others_still_discriminate'),
                  klass_c11(shape, spec, list(kwi) + list(o[2]), 'through the decorator (inf_cache(ignore=...).key)'),
                  '%s, inf_cache(ignore=%r): %s and %s: keys %s although the calls %s outside the ignored arguments'
                  % (desc, spec, K.call_repr(args, kwi), K.call_repr(o[1], o[2]), 'differ' if q[0] != g else 'coincide', 'agree' if q[0] != g else 'differ'),
                  {'prop': 'C11', 'mode': mode, 'shape': idx, 'callable': ci, 'spec': list(spec), 'call': _enc_call(args, kwi),
                   'other': _enc_call(o[1], o[2]), 'desc': desc, 'kind': 'decorator'})


def _c11_explicit_instance(out, seen, shape, entered, maxpos, maxkw, mode, idx):
    """a plain function called with an explicit instance and 'self' in the ignore specification: the instance (truthy or
    falsy) never influences the key"""
    _, I, _ = K._mods()
    func, it, iff, desc = S.make_unbound(shape, entered)
    pnames = [S.POS_NAMES[i] for i in range(shape.npos)]
    base = [('self',)] + [('self', x) for x in list(shape.names()) + [0, '*', '**']] + [(0,), (0, '**'), (0, 1)]
    for spec in base:
        by_proj = {}
        by_key = {}
        # the instance is the first positional argument of the plain function: index 0 selects it, index i > 0 the (i-1)th parameter
        if 'self' in spec:
            pspec = tuple(x for x in spec if x != 'self')
        else:
            pspec = tuple((x - 1 if isinstance(x, int) else x) for x in spec if x != 0)
        for inst in (it, iff):
            for (args0, kwi0) in S.call_forms(shape, maxpos, min(maxkw, 1), orders=False):
                args = (inst,) + tuple(args0)
                ok, got = S.really_binds(func, entered, args, kwi0)
                if not ok:
                    continue
                out['evaluations'] += 1
                try:
                    g = K.freeze(I._keygen(func, spec, *args, **dict(kwi0)), strict=True)
                except Exception as e:      # noqa
                    _viol(out, seen, 'keygen_total', 'explicit instance: raises %s' % e.__class__.__name__, '%s ignore=%r: %r' % (desc, spec, e),
                          {'prop': 'C11', 'mode': mode, 'shape': idx, 'spec': list(spec), 'desc': desc, 'kind': 'explicit-instance'})
                    continue
                got_wo = {k: v for k, v in got.items() if k != 'self'} if isinstance(got, dict) else got
                p = K.freeze(project(shape, pnames, got_wo, pspec), strict=True)
                q = by_proj.setdefault(p, (g, len(inst), args0, kwi0))
                r = by_key.setdefault(g, (p, args0, kwi0))
                if r[0] != p:
                    _viol(out, seen, 'others_still_discriminate', "explicit instance ignored: calls that differ in another argument share a key",
                          "%s, ignore=%r: the calls %s and %s differ in an argument that is not ignored but get the same _keygen output"
                          % (desc, spec, K.call_repr(args0, kwi0), K.call_repr(r[1], r[2])),
                          {'prop': 'C11', 'mode': mode, 'shape': idx, 'spec': list(spec), 'desc': desc, 'kind': 'explicit-instance',
                           'call': _enc_call(args0, kwi0)})
                if q[0] != g:
                    _viol(out, seen, 'instance_ignored', "ignore contains 'self': the instance influences the key",
                          "%s, ignore=%r: the call %s on an instance with len %d and on one with len %d get different _keygen output"
                          % (desc, spec, K.call_repr(args0, kwi0), len(inst), q[1]),
                          {'prop': 'C11', 'mode': mode, 'shape': idx, 'spec': list(spec), 'desc': desc, 'kind': 'explicit-instance',
                           'call': _enc_call(args0, kwi0)})
        out['distinct'] += len(by_proj)


def replay_c11(w):
    if w.get('kind') in ('decorator', 'explicit-instance'):
        r = run_c11((w['mode'], w['shape']))
        for v in r['violations']:
            if v['witness'].get('kind') == w['kind'] and v['witness'].get('spec') == w['spec']:
                return True, v['message'][:600]
        return False, 'shape %d, ignore=%r: consistent' % (w['shape'], w['spec'])
    (npos, nkwo), maxpos, maxkw = _scope(w['mode'])
    shape = S.shapes(npos, nkwo)[w['shape']]
    entered = []
    form, c, desc, nfixed = _c11_callables(shape, entered)[w['callable']]
    pnames = _visible_positional(shape, form, nfixed)
    _, I, _ = K._mods()
    spec = tuple(w['spec'])
    res = []
    for key in ('call', 'other'):
        if key not in w:
            continue
        args = tuple(_dec(x) for x in w[key]['args'])
        kwi = [(k, _dec(v)) for k, v in w[key]['kw']]
        ok, got = S.really_binds(c, entered, args, kwi)
        try:
            g = I._keygen(c, spec, *args, **dict(kwi))
        except Exception as e:      # noqa
            return True, '%s: _keygen(ignore=%r) raised %r for %s' % (desc, spec, e, K.call_repr(args, kwi))
        res.append((K.freeze(project(shape, pnames, got, spec), True), K.freeze(g, True), K.call_repr(args, kwi), g))
    if len(res) == 2:
        same_p, same_g = res[0][0] == res[1][0], res[0][1] == res[1][1]
        if same_p != same_g:
            return True, '%s, ignore=%r: %s -> %r ; %s -> %r ; the calls %s outside the ignored arguments' % (
                desc, spec, res[0][2], res[0][3], res[1][2], res[1][3], 'agree' if same_p else 'differ')
    return False, '%s, ignore=%r: consistent' % (desc, spec)
