"""Enumeration of callable shapes and call forms (DESIGN.md 3.8) -- the scope of the bounded stand-ins for
C09 C10 C11 C17 C19.  Everything here is generated, nothing is sampled: within the stated bounds the
enumeration is exhaustive.

Callable shapes: <= NPOS positional-or-keyword parameters (each with/without default, defaults a suffix),
optional *args, <= NKWO keyword-only parameters (with/without default), optional **kw; presented as plain
function, bound method, callable instance, and functools.partial fixing <= 2 positionals and/or <= 1 keyword.
Calls: 0..MAXPOS positionals, every subset (size <= MAXKW) of the parameter names plus one foreign name as
keywords, in every order where order matters.

The oracle for "what Python binds" is Python itself: inspect.signature(callable).bind + apply_defaults, and
for validity additionally *calling* a side-effect-free stub of the same shape.
"""
import functools
import inspect
import itertools
import os

POS_NAMES = ['a', 'b', 'c']
KWO_NAMES = ['k', 'm']
FOREIGN = 'z'


class Tok(object):
    """an opaque argument value: hashable, picklable, process-independent repr, equal by tag"""
    __slots__ = ('tag',)

    def __init__(self, tag):
        self.tag = tag

    def __eq__(self, o):
        return isinstance(o, Tok) and o.tag == self.tag

    def __ne__(self, o):
        return not self.__eq__(o)

    def __hash__(self):
        return hash(('Tok', self.tag))

    def __repr__(self):
        return 'Tok(%r)' % (self.tag,)

    def __reduce__(self):
        return (Tok, (self.tag,))


class Shape(object):
    """(npos, ndef, varargs, kwo=[(name, has_default)], varkw)"""

    def __init__(self, npos, ndef, varargs, kwo, varkw):
        self.npos, self.ndef, self.varargs, self.kwo, self.varkw = npos, ndef, varargs, tuple(kwo), varkw

    def params(self, leading=()):
        parts = list(leading)
        for i in range(self.npos):
            n = POS_NAMES[i]
            if i >= self.npos - self.ndef:
                parts.append('%s=DEF[%r]' % (n, n))
            else:
                parts.append(n)
        if self.varargs:
            parts.append('*args')
        elif self.kwo:
            parts.append('*')
        for (n, d) in self.kwo:
            parts.append('%s=DEF[%r]' % (n, n) if d else n)
        if self.varkw:
            parts.append('**kw')
        return ', '.join(parts)

    def names(self):
        return [POS_NAMES[i] for i in range(self.npos)] + [n for (n, d) in self.kwo]

    def ident(self):
        return 'p%dd%d%s%s%s' % (self.npos, self.ndef, 'V' if self.varargs else '',
                                 ''.join('K' if d else 'k' for (n, d) in self.kwo), 'W' if self.varkw else '')

    def __repr__(self):
        return 'def f(%s)' % self.params()


DEF = {n: Tok('default-' + n) for n in POS_NAMES + KWO_NAMES}
DEF2 = {n: Tok('other-default-' + n) for n in POS_NAMES + KWO_NAMES}

# argument values: every slot has its own value AND its own type, so that anything built per argument in the wrong
# order (e.g. the type tuple of a typed key) shows
_POS_VALUES = [Tok('p0'), 11, 'p2', 2.5, (4,), b'p5']
_KW_VALUES = {'a': Tok('kw-a'), 'b': 21, 'c': 'kc', 'k': 3.5, 'm': (5,), FOREIGN: b'kz'}


def pos_value(i):
    return _POS_VALUES[i] if i < len(_POS_VALUES) else Tok('p%d' % i)


def kw_value(name):
    return _KW_VALUES.get(name, Tok('kw-' + name))


def shapes(npos_max=3, nkwo_max=2):
    out = []
    for npos in range(npos_max + 1):
        for ndef in range(npos + 1):
            for varargs in (False, True):
                kwos = [()]
                if nkwo_max >= 1:
                    kwos += [(('k', False),), (('k', True),)]
                if nkwo_max >= 2:
                    kwos += [(('k', a), ('m', b)) for a in (False, True) for b in (False, True)]
                for kwo in kwos:
                    for varkw in (False, True):
                        out.append(Shape(npos, ndef, varargs, kwo, varkw))
    return out


def make_callables(shape, entered, partials=True):
    """-> [(form, callable, description)].  Every callable records entry in `entered` (a list)."""
    ns = {'DEF': DEF, 'entered': entered}
    ret = "{%s}" % ', '.join(["%r: %s" % (n, n) for n in shape.names()] +
                               (["'*': args"] if shape.varargs else []) + (["'**': dict(kw)"] if shape.varkw else []))
    src = "def f(%s):\n    entered.append(1)\n    return %s\n" % (shape.params(), ret)
    sp = shape.params(['self'])
    src += ("class C(object):\n    def meth(%s):\n        entered.append(1)\n        return %s\n"
            "    def __call__(%s):\n        entered.append(1)\n        return %s\n" % (sp, ret, sp, ret))
    exec(src, ns)
    f = ns['f']
    inst = ns['C']()
    out = [('function', f, 'def f(%s)' % shape.params()),
           ('method', inst.meth, 'bound method meth(self, %s)' % shape.params()),
           ('instance', inst, 'instance with __call__(self, %s)' % shape.params())]
    # a bound method of an instance that is falsy (defines __len__ -> 0)
    ns['C'].__name__ = 'C'
    exec("class CF(C):\n    def __len__(self):\n        return 0\n", ns)
    out.append(('method-falsy', ns['CF']().meth, 'bound method of a falsy instance, meth(self, %s)' % shape.params()))
    # a callable instance that happens to have an attribute called `args` (but is no functools.partial)
    ia = ns['C']()
    ia.args = (Tok('attr0'), Tok('attr1'))
    out.append(('instance-args-attr', ia, 'instance with an attribute .args and __call__(self, %s)' % shape.params()))
    if shape.ndef or any(d for (n, d) in shape.kwo):
        # two functions made by one factory share a code object but not their defaults: inspect the first, test the second
        fsrc = "def make(DEF):\n" + '\n'.join('    ' + l for l in src.split('class C')[0].rstrip().split('\n')) + "\n    return f\n"
        exec(fsrc, ns)
        first = ns['make'](DEF)
        if os.environ.get('KV_SESSION_VARIANT', '0') == '0':
            # (sessions of the C17 check differ in their history: the odd ones never inspect the sibling)
            try:
                import klepto._inspect as _I
                _I.signature(first)
                _I._keygen(first, ())
            except Exception:
                pass
        out.append(('sibling-closure', ns['make'](DEF2), 'second function from a factory (shares its code object with an already '
                    'inspected sibling, other defaults), def f(%s)' % shape.params()))
    if partials:
        fixes = []
        for npf in (0, 1, 2):
            kws = [None] + shape.names()[:3]
            for kwf in kws:
                if npf == 0 and kwf is None:
                    continue
                fixes.append((npf, kwf))
        for (npf, kwf) in fixes:
            pargs = tuple(Tok('fixed%d' % i) for i in range(npf))
            pkw = {kwf: Tok('fixedkw')} if kwf else {}
            try:
                p = functools.partial(f, *pargs, **pkw)
            except Exception:
                continue
            if npf == 1 and kwf is None:
                try:
                    out.append(('partial-of-method', functools.partial(inst.meth, *pargs), 'partial(obj.meth, <1 fixed>) of meth(self, %s)' % shape.params()))
                except Exception:
                    pass
            out.append(('partial', p, 'partial(f, %s) of def f(%s)' % (
                ', '.join(['<%d fixed>' % npf] + (['%s=<fixed>' % kwf] if kwf else [])), shape.params())))
    # (new forms are appended at the end: stored witnesses address callables by their index)
    # a callable instance that carries a __name__ (as functools.update_wrapper gives class-based decorators)
    named = ns['C']()
    named.__name__ = 'named_instance'
    out.append(('instance-named', named, 'instance with an attribute __name__ and __call__(self, %s)' % shape.params()))
    # a function decorated with functools.wraps whose wrapper (this shape) and wrapped function have different signatures:
    # python binds a call by the wrapper, inspect.signature() reports the wrapped one
    exec("def other(q, *, only_of_wrapped):\n    return None\n" + src.split('class C')[0].replace('def f(', 'def fw('), ns)
    fw = functools.wraps(ns['other'])(ns['fw'])
    out.append(('wraps', fw, 'functools.wraps(other)(f) with def f(%s) and def other(q, *, only_of_wrapped)' % shape.params()))
    if partials:
        try:
            out.append(('partial-of-instance', functools.partial(inst, Tok('fixed0')), 'partial(obj, <1 fixed>) of an instance with __call__(self, %s)' % shape.params()))
            out.append(('partial-of-instance-kw', functools.partial(inst, **{FOREIGN: Tok('fixedkw')}), 'partial(obj, z=<fixed>) of an instance with __call__(self, %s)' % shape.params()))
        except Exception:
            pass
    return out


def call_forms(shape, maxpos=4, maxkw=3, orders=False):
    """-> [(args tuple, [(kwname, value), ...])]"""
    names = shape.names() + [FOREIGN]
    out = []
    for npos in range(maxpos + 1):
        args = tuple(pos_value(i) for i in range(npos))
        for k in range(min(maxkw, len(names)) + 1):
            for sub in itertools.combinations(names, k):
                perms = itertools.permutations(sub) if orders else [sub]
                for order in perms:
                    out.append((args, [(n, kw_value(n)) for n in order]))
    return out


def oracle_bind(callable_, args, kwitems):
    """Python's own binder: -> canonical dict of the bound arguments (defaults applied) or None if the call
    would not get past argument binding"""
    try:
        sig = inspect.signature(callable_)
        ba = sig.bind(*args, **dict(kwitems))
    except (TypeError, ValueError):      # ValueError: a partial that fixes more than the function takes
        return None
    ba.apply_defaults()
    return dict(ba.arguments)


def really_binds(callable_, entered, args, kwitems):
    """ground truth by calling the side-effect-free stub: -> (binds?, what the function received)"""
    del entered[:]
    got = None
    try:
        got = callable_(*args, **dict(kwitems))
        ok = True
    except TypeError:
        ok = bool(entered)       # a TypeError raised *inside* the body would still mean binding succeeded
    del entered[:]
    return ok, got


def make_unbound(shape, entered):
    """a plain function written as a method, to be called with an explicit instance: -> (function, truthy instance,
    falsy instance of the same class, description)"""
    ns = {'DEF': DEF, 'entered': entered}
    ret = "{%s}" % ', '.join(["%r: %s" % (n, n) for n in shape.names()] +
                              (["'*': args"] if shape.varargs else []) + (["'**': dict(kw)"] if shape.varkw else []))
    src = ("class U(object):\n    def __init__(self, n):\n        self.n = n\n    def __len__(self):\n        return self.n\n"
           "    def __eq__(self, o):\n        return isinstance(o, U)\n    def __hash__(self):\n        return 1\n"
           "    def meth(%s):\n        entered.append(1)\n        return %s\n" % (shape.params(['self']), ret))
    exec(src, ns)
    U = ns['U']
    return U.meth, U(3), U(0), 'plain function meth(self, %s) called with an explicit instance' % shape.params()
