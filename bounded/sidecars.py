"""deal contracts on sidecar wrappers of the REAL klepto functions (the repository files are untouched).
The contracts are checked at run time by the exhaustive shape enumeration (checks/shapeprops.py) and are
searched symbolically by CrossHair in the thorough tier -- a bounded stand-in, never counted as proved.

Oracles are never klepto: Python's own argument binding (actually calling a side-effect-free stub of the same
shape), Python's round, Python's dict.
"""
import deal

from . import shapes as S


def _klepto():
    import klepto
    from klepto import _inspect
    return klepto, _inspect


# ---- C19 -------------------------------------------------------------------------------------------
class Probe(object):
    """a callable under test together with its entry log"""

    def __init__(self, callable_, entered, desc):
        self.c, self.entered, self.desc = callable_, entered, desc

    def truth(self, args, kwitems):
        return S.really_binds(self.c, self.entered, args, kwitems)


@deal.ensure(lambda probe, args, kwitems, result: result[0] == probe.truth(args, kwitems)[0],
             message='isvalid.iff_binds: isvalid(func, *args, **kwds) is True exactly when func(*args, **kwds) gets past argument binding')
@deal.ensure(lambda probe, args, kwitems, result: not result[1],
             message='isvalid.never_calls: isvalid never calls the function')
def isvalid_c(probe, args, kwitems):
    _, I = _klepto()
    del probe.entered[:]
    r = I.isvalid(probe.c, *args, **dict(kwitems))
    called = bool(probe.entered)
    del probe.entered[:]
    return (r, called)


@deal.ensure(lambda probe, args, kwitems, result: (result[0] == 'TypeError') == (not probe.truth(args, kwitems)[0]),
             message='validate.typeerror_iff_not_binds: validate raises TypeError exactly when the call would not get past argument binding')
@deal.ensure(lambda probe, args, kwitems, result: result[0] in ('ok', 'TypeError'),
             message='validate.only_typeerror: validate raises nothing but TypeError')
@deal.ensure(lambda probe, args, kwitems, result: not result[1], message='validate.never_calls: validate never calls the function')
def validate_c(probe, args, kwitems):
    _, I = _klepto()
    del probe.entered[:]
    try:
        I.validate(probe.c, *args, **dict(kwitems))
        r = 'ok'
    except TypeError:
        r = 'TypeError'
    except Exception as e:      # noqa
        r = e.__class__.__name__
    called = bool(probe.entered)
    del probe.entered[:]
    return (r, called)
