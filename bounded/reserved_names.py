"""Parameter names that klepto itself uses (C09 / C19, bounded).

Arguments travel through klepto by keyword (`_keygen` returns a dict of ALL named arguments, which is then splatted into
`keymap(*args, **kwds)`, `encode`, `encrypt`; `isvalid(func, *args, **kwds)`): a user parameter that happens to be called like one
of klepto's own parameters (`self`, `func`, `ignored`, ...) must not collide with it.  The names are collected mechanically from the
signatures in klepto's source, so a new internal parameter is covered without editing this file.

For every such name n, callables  f(n) / f(x, n=D) / f(x, *, n=D) / f(x, **kw) / method m(self, n)  and every way of passing n:
  C09  keygen_total, keymap_total       every valid call has a key under the serialising keymaps
  C09  canonical                        positional / keyword / default-spelled-out spellings of one binding share the key
  C09  decorated_call_is_transparent_and_cached   through inf_cache, safe.inf_cache, lru_cache: the result is the function's and
                                        the second equivalent call is a hit
  C19  iff_binds                        isvalid says True for the valid calls, False for a call that misses n; validate agrees
"""
import ast
import keyword
import os

FILES = ['_inspect.py', 'keymaps.py', 'crypto.py', 'rounding.py', '_cache.py', 'safe.py', 'tools.py', '_abc.py', '_archives.py']
FORMS = ['f(n)', 'f(x, n=D)', 'f(x, *, n=D)', 'f(x, **kw)', 'method m(self, n)', 'method m(self, x, n=D)', 'method m(self, x, **kw)', 'method m(*args, **kwds)']


def names():
    import klepto
    root = os.path.dirname(klepto.__file__)
    out = set()
    for fn in FILES:
        try:
            tree = ast.parse(open(os.path.join(root, fn)).read())
        except (OSError, SyntaxError):
            continue
        for node in ast.walk(tree):
            if isinstance(node, (ast.FunctionDef, ast.Lambda)):
                a = node.args
                for x in list(a.posonlyargs) + list(a.args) + list(a.kwonlyargs):
                    out.add(x.arg)
                for x in (a.vararg, a.kwarg):
                    if x is not None:
                        out.add(x.arg)
    return sorted(n for n in out if n.isidentifier() and not keyword.iskeyword(n) and n not in ('x', 'D', 'entered'))


class Dflt(object):
    def __repr__(self):
        return 'D'

    def __eq__(self, o):
        return isinstance(o, Dflt)

    def __hash__(self):
        return 7

    def __reduce__(self):
        return (Dflt, ())


D = Dflt()
V = 'value-of-n'


def build(n, form, entered):
    """-> (callable, [(group, args, kwargs)]) : calls of one group bind the same values"""
    ns = {'D': D, 'entered': entered}
    body = "    entered.append(1)\n    return ('ret', %s)\n"
    recv = 'this' if n == 'self' else 'self'
    if form == 'f(n)':
        exec("def f(%s):\n" % n + body % n, ns)
        return ns['f'], [(0, (V,), {}), (0, (), {n: V})]
    if form == 'f(x, n=D)':
        exec("def f(x, %s=D):\n" % n + body % ('x, ' + n), ns)
        return ns['f'], [(0, (1,), {}), (0, (1, D), {}), (0, (1,), {n: D}), (1, (1, V), {}), (1, (1,), {n: V}), (1, (), {'x': 1, n: V}), (1, (), {n: V, 'x': 1})]
    if form == 'f(x, *, n=D)':
        exec("def f(x, *, %s=D):\n" % n + body % ('x, ' + n), ns)
        return ns['f'], [(0, (1,), {}), (0, (1,), {n: D}), (1, (1,), {n: V}), (1, (), {n: V, 'x': 1})]
    if form == 'f(x, **kw)':
        exec("def f(x, **kw):\n" + body % "x, sorted(kw.items())", ns)
        return ns['f'], [(0, (1,), {n: V}), (0, (), {n: V, 'x': 1}), (1, (1,), {})]
    if form == 'method m(self, n)':
        exec("class C(object):\n    def m(%s, %s):\n" % (recv, n) + "    " + (body % n).replace('\n    ', '\n        '), ns)
        c = ns['C']()
        return c.m, [(0, (V,), {}), (0, (), {n: V})]
    if form == 'method m(self, x, n=D)':
        exec("class C(object):\n    def m(%s, x, %s=D):\n" % (recv, n) + "    " + (body % ('x, ' + n)).replace('\n    ', '\n        '), ns)
        c = ns['C']()
        return c.m, [(0, (1,), {}), (0, (1,), {n: D}), (1, (1, V), {}), (1, (1,), {n: V}), (1, (), {'x': 1, n: V})]
    if form == 'method m(self, x, **kw)':
        # the receiver keeps its usual name here: passing self=... by keyword is then a call python rejects
        exec("class C(object):\n    def m(self, x, **kw):\n" + "    " + (body % "x, sorted(kw.items())").replace('\n    ', '\n        '), ns)
        c = ns['C']()
        return c.m, [(0, (1,), {n: V}), (0, (), {n: V, 'x': 1}), (1, (1,), {})]
    if form == 'method m(*args, **kwds)':
        # no named receiver at all: every keyword, whatever it is called (self, args, kwds, ...), lands in **kwds
        exec("class C(object):\n    def m(*args, **kwds):\n        entered.append(1)\n        return ('ret', args[1:], sorted(kwds.items()))\n", ns)
        c = ns['C']()
        return c.m, [(0, (1,), {n: V}), (1, (1,), {}), (2, (), {n: V})]
    raise ValueError(form)


def keymaps():
    import klepto.keymaps as km
    return [('keymap', km.keymap()), ('keymap non-flat', km.keymap(flat=False)), ('hashmap md5', km.hashmap(algorithm='md5')),
            ('stringmap', km.stringmap()), ('stringmap non-flat typed', km.stringmap(flat=False, typed=True)),
            ('picklemap dill', km.picklemap(serializer='dill')), ('picklemap pickle non-flat', km.picklemap(flat=False, serializer='pickle'))]


def _img(k):
    try:
        hash(k)
        return k
    except TypeError:
        return repr(k)


def run_c09(lo, hi):
    import klepto
    import klepto.safe
    from klepto._inspect import _keygen
    out = {'evaluations': 0, 'distinct': 0, 'violations': [], 'samples': [], 'counters': {'reserved_names': 0}}
    seen = set()

    def viol(clause, klass, msg, wit):
        if (clause, klass) in seen:
            return
        seen.add((clause, klass))
        out['violations'].append({'clause': clause, 'klass': klass, 'message': msg, 'witness': wit})
    kms = keymaps()
    for n in names()[lo:hi]:
        out['counters']['reserved_names'] += 1
        for form in FORMS:
            if form in ('method m(self, n)', 'method m(self, x, n=D)') and n == 'self':
                continue
            entered = []
            try:
                c, calls = build(n, form, entered)
            except SyntaxError:
                continue
            wit = {'reserved': n, 'form': form, 'check': 'c09'}
            desc = '%s with n = %r' % (form, n)
            keys = {}
            valid = []
            for (g, a, k) in calls:
                del entered[:]
                try:
                    c(*a, **k)
                except TypeError:
                    if not entered:
                        continue        # python rejects this call (self=... to a bound method): C19's business
                valid.append((g, a, k))
            for (g, a, k) in valid:
                out['distinct'] += 1
                try:
                    a2, k2 = _keygen(c, (), *a, **k)
                except Exception as e:      # noqa
                    viol('keygen_total', 'a parameter named like one of klepto\'s own: key generation raises', '%s: _keygen raised %r for call args=%r kwds=%r' % (desc, e, a, k), wit)
                    continue
                for (kn, km) in kms:
                    out['evaluations'] += 1
                    try:
                        key = _img(km(*a2, **k2))
                    except Exception as e:      # noqa
                        viol('keymap_total', 'a parameter named like one of klepto\'s own: the keymap raises',
                             '%s: %s raised %r for call args=%r kwds=%r (named arguments %r)' % (desc, kn, e, a, k, sorted(k2)), wit)
                        continue
                    if keys.setdefault((kn, g), key) != key:
                        viol('canonical', 'a parameter named like one of klepto\'s own', '%s, %s: equivalent calls get different keys' % (desc, kn), wit)
            # through the real decorators
            for (dn, dec) in (('klepto.inf_cache', klepto.inf_cache), ('klepto.safe.inf_cache', klepto.safe.inf_cache), ('klepto.lru_cache', klepto.lru_cache)):
                try:
                    cc, calls2 = build(n, form, entered)
                    f = dec()(cc)
                except Exception as e:      # noqa
                    viol('decorated_call_is_transparent_and_cached', 'decorating raises', '%s: %s raised %r' % (desc, dn, e), wit)
                    continue
                first = {}
                for (g, a, k) in valid:
                    out['evaluations'] += 1
                    want = cc(*a, **k)
                    del entered[:]
                    try:
                        got = f(*a, **k)
                    except Exception as e:      # noqa
                        viol('decorated_call_is_transparent_and_cached', 'a parameter named like one of klepto\'s own: the decorated call raises',
                             '%s through %s: call args=%r kwds=%r raised %r but the function returns %r' % (desc, dn, a, k, e, want), wit)
                        continue
                    if got != want:
                        viol('decorated_call_is_transparent_and_cached', 'wrong result', '%s through %s: call args=%r kwds=%r returned %r, the function %r' % (desc, dn, a, k, got, want), wit)
                    if g in first and entered:
                        viol('decorated_call_is_transparent_and_cached', 'a parameter named like one of klepto\'s own: an equivalent call is recomputed',
                             '%s through %s: call args=%r kwds=%r was evaluated again although %r was cached (info %r)' % (desc, dn, a, k, first[g], f.info()), wit)
                    first.setdefault(g, (a, k))
        if not out['samples']:
            out['samples'].append({'reserved_name': n, 'forms': FORMS, 'keymaps': [x for x, _ in kms]})
    return out


METHOD_NAMES = ['count', 'index', 'join', 'keys', 'format']


def run_method_names(which='c09'):
    """a function that is called like a method of its first argument (count, index, join, keys, format): `_keygen` takes
    `getattr(args[0], func.__name__)` for a sign that args[0] is `self`"""
    import klepto
    import klepto.safe
    from klepto._inspect import _keygen
    out = {'evaluations': 0, 'distinct': 0, 'violations': [], 'samples': [], 'counters': {'method_like_names': len(METHOD_NAMES)}}
    seen = set()

    def viol(clause, klass, msg, wit):
        if (clause, klass) in seen:
            return
        seen.add((clause, klass))
        out['violations'].append({'clause': clause, 'klass': klass, 'message': msg, 'witness': wit})
    firsts = ['s', (1, 2), [3], {'k': 1}, 5]
    for name in METHOD_NAMES:
        for form, params, ret in (('%s(*args)', '*args', 'args'), ('%s(*args, **kw)', '*args, **kw', '(args, sorted(kw.items()))'), ('%s(first, *rest)', 'first, *rest', '(first, rest)')):
            ns = {}
            exec('def %s(%s):\n    return %s\n' % (name, params, ret), ns)
            fn = ns[name]
            wit = {'methodname': name, 'form': form % name, 'check': 'c09'}
            for first in firsts:
                a = (first, 1)
                out['evaluations'] += 1
                out['distinct'] += 1
                try:
                    _keygen(fn, (), *a)
                except Exception as e:      # noqa
                    viol('keygen_total', 'a function named like a method of its first argument: key generation raises',
                         'def %s: _keygen raised %r for the call %r' % (form % name, e, a), wit)
                for (dn, dec) in (('klepto.inf_cache', klepto.inf_cache), ('klepto.safe.inf_cache', klepto.safe.inf_cache)):
                    try:
                        hash(first)
                    except TypeError:
                        continue            # unhashable arguments are C16's subject
                    f = dec(keymap=klepto.keymaps.keymap())(fn)
                    try:
                        got = f(*a)
                        f(*a)
                        info = f.info()
                    except Exception as e:      # noqa
                        viol('decorated_call_is_transparent_and_cached', 'a function named like a method of its first argument: the decorated call raises',
                             'def %s through %s: call %r raised %r' % (form % name, dn, a, e), wit)
                        continue
                    if got != fn(*a) or info.hit != 1:
                        viol('decorated_call_is_transparent_and_cached', 'a function named like a method of its first argument',
                             'def %s through %s: call %r returned %r (function: %r), second call: %r' % (form % name, dn, a, got, fn(*a), tuple(info)), wit)
            if form.startswith('%s(first'):
                # ignoring the first parameter: the calls differ only there, so they share a key -- whatever attributes the value has
                try:
                    keys = set(repr(_keygen(fn, ('first',), x, 1)) for x in firsts)
                except Exception as e:      # noqa
                    keys = {'raises %r' % (e,)}
                out['evaluations'] += 1
                if len(keys) != 1:
                    wit11 = dict(wit, check='c11')
                    viol('ignored_never_influence', 'a function named like a method of its first argument',
                         'def %s with ignore=first: calls differing only in the ignored argument get the keys %s' % (form % name, sorted(keys)), wit11)
    out['samples'].append({'function_names': METHOD_NAMES, 'first_arguments': [repr(x) for x in firsts]})
    out['violations'] = [v for v in out['violations'] if v['witness'].get('check') == which]      # each property reports its own clauses
    return out


def run_c12(lo, hi):
    """rounding is in the path of the user's arguments: through the decorators built with a tolerance, through klepto.keygen and
    through the standalone rounding decorators, a parameter named like one of klepto's own (self, f, args, tol, ...) is passed on
    like any other -- rounding never makes a valid call fail, and equivalent calls still share an entry"""
    import klepto
    import klepto.safe
    import klepto.rounding as R
    import klepto.keymaps as KM
    out = {'evaluations': 0, 'distinct': 0, 'violations': [], 'samples': [], 'counters': {'reserved_names': 0}}
    seen = set()

    def viol(clause, klass, msg, wit):
        if (clause, klass) in seen:
            return
        seen.add((clause, klass))
        out['violations'].append({'clause': clause, 'klass': klass, 'message': msg, 'witness': wit})
    decs = []
    for deep in (False, True):
        decs += [('klepto.inf_cache(tol=1, deep=%s)' % deep, lambda d=deep: klepto.inf_cache(tol=1, deep=d, keymap=KM.stringmap())),
                 ('klepto.lfu_cache(tol=1, deep=%s)' % deep, lambda d=deep: klepto.lfu_cache(maxsize=50, tol=1, deep=d, keymap=KM.stringmap())),
                 ('klepto.safe.lru_cache(tol=1, deep=%s)' % deep, lambda d=deep: klepto.safe.lru_cache(maxsize=50, tol=1, deep=d, keymap=KM.stringmap())),
                 ('klepto.no_cache(tol=1, deep=%s)' % deep, lambda d=deep: klepto.no_cache(tol=1, deep=d, keymap=KM.stringmap()))]
    rounders = [('simple_round(tol=1)', lambda: R.simple_round(tol=1)), ('deep_round(tol=1)', lambda: R.deep_round(tol=1)),
                ('shallow_round(tol=1)', lambda: R.shallow_round(tol=1))]
    for n in names()[lo:hi]:
        out['counters']['reserved_names'] += 1
        for form in FORMS:
            if form in ('method m(self, n)', 'method m(self, x, n=D)') and n == 'self':
                continue
            entered = []
            try:
                c, calls = build(n, form, entered)
            except SyntaxError:
                continue
            wit = {'reserved': n, 'form': form, 'check': 'c12'}
            desc = '%s with n = %r' % (form, n)
            valid = []
            for (g, a, k) in calls:
                del entered[:]
                try:
                    c(*a, **k)
                except TypeError:
                    if not entered:
                        continue
                valid.append((g, a, k))
            out['distinct'] += len(valid)
            for (dn, mk) in decs:
                try:
                    cc, _ = build(n, form, entered)
                    f = mk()(cc)
                except Exception as e:      # noqa
                    viol('rounding_never_fails_a_valid_call', 'decorating raises', '%s: %s raised %r' % (desc, dn, e), wit)
                    continue
                first = {}
                for (g, a, k) in valid:
                    out['evaluations'] += 1
                    want = cc(*a, **k)
                    del entered[:]
                    try:
                        got = f(*a, **k)
                    except Exception as e:      # noqa
                        viol('rounding_never_fails_a_valid_call', 'a parameter named like one of klepto\'s own: the call raises once a tolerance is set',
                             '%s through %s: call args=%r kwds=%r raised %r but the function returns %r' % (desc, dn, a, k, e, want), wit)
                        continue
                    if got != want:
                        viol('function_sees_original_arguments', 'a parameter named like one of klepto\'s own: wrong result with a tolerance',
                             '%s through %s: call args=%r kwds=%r returned %r, the function %r' % (desc, dn, a, k, got, want), wit)
                    if g in first and entered and 'no_cache' not in dn:
                        viol('same_rounding_shares_entry', 'a parameter named like one of klepto\'s own: an equivalent call is recomputed once a tolerance is set',
                             '%s through %s: call args=%r kwds=%r was evaluated again although %r was cached (info %r)' % (desc, dn, a, k, first[g], f.info()), wit)
                    first.setdefault(g, (a, k))
            # klepto.keygen with a tolerance
            try:
                cc, _ = build(n, form, entered)
                kg = klepto.keygen(tol=1, deep=True)(cc)
                for (g, a, k) in valid:
                    out['evaluations'] += 1
                    kg(*a, **k)
            except Exception as e:      # noqa
                viol('rounding_never_fails_a_valid_call', 'a parameter named like one of klepto\'s own: klepto.keygen raises once a tolerance is set',
                     '%s through keygen(tol=1, deep=True): %r' % (desc, e), wit)
            # the standalone rounding decorators hand on what they are given (no floats here: unchanged)
            for (rn, mk) in rounders:
                cc, _ = build(n, form, entered)
                try:
                    f = mk()(cc)
                except Exception as e:      # noqa
                    viol('rounding_never_fails_a_valid_call', 'decorating raises', '%s: %s raised %r' % (desc, rn, e), wit)
                    continue
                for (g, a, k) in valid:
                    out['evaluations'] += 1
                    want = cc(*a, **k)
                    try:
                        got = f(*a, **k)
                    except Exception as e:      # noqa
                        viol('rounding_never_fails_a_valid_call', 'a parameter named like one of klepto\'s own: the standalone rounding decorator raises',
                             '%s through %s: call args=%r kwds=%r raised %r but the function returns %r' % (desc, rn, a, k, e, want), wit)
                        continue
                    if got != want:
                        viol('non_float_data_intact', 'a parameter named like one of klepto\'s own: the standalone rounding decorator changes the result',
                             '%s through %s: call args=%r kwds=%r returned %r, the function %r' % (desc, rn, a, k, got, want), wit)
        if not out['samples']:
            out['samples'].append({'reserved_name': n, 'forms': FORMS, 'decorators': [x for x, _ in decs] + ['keygen(tol=1, deep=True)'] + [x for x, _ in rounders]})
    return out


def run_c18(lo, hi):
    """introspection with a user parameter named like one of klepto's own (key, lookup, default, args, ...): for every valid call made
    through each of the twelve decorators, key(<same arguments>) is a key of the cache, lookup(<same arguments>) returns the
    stored result and evaluates nothing; for arguments never called lookup raises KeyError"""
    import klepto
    import klepto.safe
    import klepto.keymaps as KM
    out = {'evaluations': 0, 'distinct': 0, 'violations': [], 'samples': [], 'counters': {'reserved_names': 0}}
    seen = set()

    def viol(clause, klass, msg, wit):
        if (clause, klass) in seen:
            return
        seen.add((clause, klass))
        out['violations'].append({'clause': clause, 'klass': klass, 'message': msg, 'witness': wit})
    decs = []
    for mod in (klepto, klepto.safe):
        for cn in ('no_cache', 'inf_cache', 'lfu_cache', 'lru_cache', 'mru_cache', 'rr_cache'):
            decs.append(('%s.%s' % (mod.__name__, cn), getattr(mod, cn), cn))
    for n in names()[lo:hi]:
        out['counters']['reserved_names'] += 1
        for form in FORMS:
            if form in ('method m(self, n)', 'method m(self, x, n=D)') and n == 'self':
                continue
            entered = []
            try:
                c, calls = build(n, form, entered)
            except SyntaxError:
                continue
            wit = {'reserved': n, 'form': form, 'check': 'c18'}
            desc = '%s with n = %r' % (form, n)
            valid = []
            for (g, a, k) in calls:
                del entered[:]
                try:
                    c(*a, **k)
                except TypeError:
                    if not entered:
                        continue
                valid.append((g, a, k))
            out['distinct'] += len(valid)
            for (dn, dec, cn) in decs:
                kw = {'keymap': KM.keymap()}
                if cn not in ('no_cache', 'inf_cache'):
                    kw['maxsize'] = 50
                try:
                    cc, _ = build(n, form, entered)
                    f = dec(**kw)(cc)
                except Exception as e:      # noqa
                    viol('introspection_total', 'decorating raises', '%s: %s raised %r' % (desc, dn, e), wit)
                    continue
                # nothing called yet: lookup raises KeyError and evaluates nothing
                for (g, a, k) in valid[:1]:
                    del entered[:]
                    out['evaluations'] += 1
                    try:
                        r = f.lookup(*a, **k)
                        viol('lookup_raises_keyerror_when_not_resident', 'a parameter named like one of klepto\'s own: lookup() returns although nothing is stored',
                             '%s through %s: lookup(args=%r kwds=%r) returned %r on an empty cache' % (desc, dn, a, k, r), wit)
                    except KeyError:
                        pass
                    except Exception as e:      # noqa
                        viol('lookup_raises_keyerror_when_not_resident', 'a parameter named like one of klepto\'s own: lookup() raises something else',
                             '%s through %s: lookup(args=%r kwds=%r) raised %r on an empty cache' % (desc, dn, a, k, e), wit)
                    if entered:
                        viol('never_evaluates', 'a parameter named like one of klepto\'s own: lookup() evaluates the function', '%s through %s' % (desc, dn), wit)
                for (g, a, k) in valid:
                    out['evaluations'] += 3
                    try:
                        want = f(*a, **k)
                    except Exception:      # noqa  (C09/C19's business)
                        continue
                    del entered[:]
                    try:
                        key = f.key(*a, **k)
                    except Exception as e:      # noqa
                        viol('returns_storage_key', 'a parameter named like one of klepto\'s own: key() raises',
                             '%s through %s: key(args=%r kwds=%r) raised %r after the same call succeeded' % (desc, dn, a, k, e), wit)
                        continue
                    if cn != 'no_cache':
                        try:
                            present = key in f.__cache__()
                        except TypeError:
                            present = True
                        if not present:
                            viol('returns_storage_key', 'a parameter named like one of klepto\'s own: key() is not the key the call was stored under',
                                 '%s through %s: after the call args=%r kwds=%r, key(...) = %r is not among the keys %r' % (desc, dn, a, k, key, list(f.__cache__().keys())[:4]), wit)
                        try:
                            got = f.lookup(*a, **k)
                            if got != want:
                                viol('returns_resident_value', 'a parameter named like one of klepto\'s own: lookup() returns another entry',
                                     '%s through %s: lookup(args=%r kwds=%r) returned %r, the call returned %r' % (desc, dn, a, k, got, want), wit)
                        except Exception as e:      # noqa
                            viol('returns_resident_value', 'a parameter named like one of klepto\'s own: lookup() raises for a resident entry',
                                 '%s through %s: lookup(args=%r kwds=%r) raised %r right after the call' % (desc, dn, a, k, e), wit)
                    if entered:
                        viol('never_evaluates', 'a parameter named like one of klepto\'s own: key()/lookup() evaluate the function', '%s through %s' % (desc, dn), wit)
        if not out['samples']:
            out['samples'].append({'reserved_name': n, 'forms': FORMS, 'decorators': [x for x, _, _ in decs]})
    return out


def run_c19(lo, hi):
    from klepto._inspect import isvalid, validate
    out = {'evaluations': 0, 'distinct': 0, 'violations': [], 'samples': [], 'counters': {'reserved_names': 0}}
    seen = set()

    def viol(clause, klass, msg, wit):
        if (clause, klass) in seen:
            return
        seen.add((clause, klass))
        out['violations'].append({'clause': clause, 'klass': klass, 'message': msg, 'witness': wit})
    for n in names()[lo:hi]:
        out['counters']['reserved_names'] += 1
        for form in FORMS:
            if form in ('method m(self, n)', 'method m(self, x, n=D)') and n == 'self':
                continue
            entered = []
            try:
                c, calls = build(n, form, entered)
            except SyntaxError:
                continue
            wit = {'reserved': n, 'form': form, 'check': 'c19'}
            desc = '%s with n = %r' % (form, n)
            probes = [(a, k) for (_, a, k) in calls] + [((), {'no_such_parameter_': 1}), ((1, 2, 3, 4), {})]
            for (a, k) in probes:
                del entered[:]
                try:
                    c(*a, **k)
                    truth = True
                except TypeError:
                    truth = bool(entered)
                out['evaluations'] += 2
                out['distinct'] += 1
                del entered[:]
                try:
                    got = isvalid(c, *a, **k)
                except Exception as e:      # noqa
                    got = 'raises %r' % (e,)
                if got is not truth or entered:
                    viol('iff_binds', 'a parameter named like one of klepto\'s own: isvalid', '%s: isvalid(args=%r, kwds=%r) is %s but python %s the call'
                         % (desc, a, k, got, 'accepts' if truth else 'rejects'), wit)
                try:
                    validate(c, *a, **k)
                    got = True
                except TypeError:
                    got = False
                except Exception as e:      # noqa
                    got = 'raises %r' % (e,)
                if got is not truth or entered:
                    viol('iff_binds', 'a parameter named like one of klepto\'s own: validate', '%s: validate(args=%r, kwds=%r) gives %s but python %s the call'
                         % (desc, a, k, got, 'accepts' if truth else 'rejects'), wit)
        if not out['samples']:
            out['samples'].append({'reserved_name': n, 'forms': FORMS})
    return out


def replay(w):
    if 'methodname' in w:
        r = run_method_names(w.get('check', 'c09'))
        vs = [v for v in r['violations'] if v['witness'].get('methodname') == w['methodname'] and v['witness'].get('form') == w['form']]
        return bool(vs), (vs[0]['message'][:500] if vs else 'calls of %s behave' % w['form'])
    lo = names().index(w['reserved']) if w['reserved'] in names() else None
    if lo is None:
        return False, 'the name %r is no longer a parameter name of klepto' % w['reserved']
    r = {'c09': run_c09, 'c12': run_c12, 'c18': run_c18}.get(w['check'], run_c19)(lo, lo + 1)
    vs = [v for v in r['violations'] if v['witness']['form'] == w['form']]
    if vs:
        return True, vs[0]['message'][:600]
    return False, 'all calls of %s with n = %r behave' % (w['form'], w['reserved'])
