"""CrossHair targets (thorough tier): deal contracts on sidecar wrappers of the real keymap / validate functions with
symbolic argument VALUES for fixed call shapes.  A bounded stand-in (per-condition time budget), never counted as proved."""
from typing import Tuple
import deal
from klepto.keymaps import keymap, stringmap
from klepto._inspect import isvalid, _keygen


@deal.post(lambda result: result)
def flat_key_is_function_of_keyword_map(a: int, b: str, x: int, y: int, typed: bool) -> bool:
    """keyword order never changes a flat key"""
    km = keymap(typed=typed, flat=True)
    return km(a, b, x=x, y=y) == km(a, b, y=y, x=x)


@deal.post(lambda result: result)
def nonflat_string_key_is_function_of_keyword_map(a: int, x: int, y: str, typed: bool) -> bool:
    km = stringmap(typed=typed, flat=False)
    return km(a, x=x, y=y) == km(a, y=y, x=x)


def _f(p, q=2, *rest, **kw):
    return None


@deal.post(lambda result: result)
def keygen_moves_named_arguments_into_keywords(p: int, q: int, r: int) -> bool:
    """f(p, q, r) and f(p, q=q) + extra positional bind alike <=> equal _keygen output"""
    return _keygen(_f, (), p, q, r) == _keygen(_f, (), p, r, q=q)[0:0] + _keygen(_f, (), p, q, r)


@deal.post(lambda result: result)
def sentinel_separates_positional_tail_from_keywords(a: int, b: int, c: int, v: int) -> bool:
    """flat key with a sentinel: (a, b, c) positional never collides with (a,) + keyword x=v when no argument is the sentinel"""
    mark = object()
    km = keymap(flat=True, sentinel=mark)
    return km(a, b, c) != km(a, x=v)
