import deal
from klepto.keymaps import stringmap


def _g(*args):
    return None


@deal.post(lambda result: result)
def flat_stringmap_separates_int_and_str(a: int, b: str) -> bool:
    km = stringmap(flat=True)
    return km(a) != km(b)
