"""CrossHair targets for C12 (thorough tier): the real rounding functions with symbolic values."""
import math
import deal
from klepto.rounding import simple_round, deep_round


def _recv(*a, **k):
    return (a, k)


@deal.pre(lambda x, n, s, tol: -3 <= tol <= 6 and not math.isnan(x) and not math.isinf(x))
@deal.post(lambda result: result)
def simple_round_touches_only_top_level_floats(x: float, n: int, s: str, tol: int) -> bool:
    a, k = simple_round(tol)(_recv)(x, n, s, [x], y=x, z=n)
    return (a[0] == round(x, tol) and a[1] is n and a[2] is s and a[3] == [x]
            and k['y'] == round(x, tol) and k['z'] is n and len(a) == 4 and sorted(k) == ['y', 'z'])


@deal.pre(lambda x, n, s, tol: -3 <= tol <= 6 and not math.isnan(x) and not math.isinf(x))
@deal.post(lambda result: result)
def deep_round_reaches_nested_floats(x: float, n: int, s: str, tol: int) -> bool:
    arg = [x, (n, {s: x, 7: [x]})]
    a, k = deep_round(tol)(_recv)(arg, w={'q': (x, s)})
    r = round(x, tol)
    return a[0] == [r, (n, {s: r, 7: [r]})] and k['w'] == {'q': (r, s)} and arg == [x, (n, {s: x, 7: [x]})]


@deal.post(lambda result: result)
def tol_none_disables_rounding(x: float, s: str) -> bool:
    a, k = simple_round(None)(_recv)(x, s)
    b, _ = deep_round(None)(_recv)([x], s)
    return a[0] is x and a[1] is s and b[0][0] is x
