"""Archive configurations, the dict oracle and the operation alphabet for the bounded stand-ins of C03 / C04 / C13.

Every configuration is constructed through klepto.archives.<kind>(name, cached=False, **kwds) (the direct handle) in a
scratch directory; the oracle is a plain Python dict.
"""
import os
import shutil
import tempfile

SCRATCH = os.environ.get('VERIF_SCRATCH', '/tmp')


def configs():
    """-> list of (id, kind, kwds, key domain id)"""
    return [
        ('dict', 'dict_archive', {}, 'any'),
        ('null', 'null_archive', {}, 'any'),
        ('file-pickle', 'file_archive', {}, 'any'),
        ('file-json', 'file_archive', {'protocol': 'json'}, 'json'),
        ('file-source', 'file_archive', {'serialized': False}, 'source'),
        ('dir-pickle', 'dir_archive', {}, 'fs'),
        ('dir-compressed', 'dir_archive', {'compression': 3}, 'fs'),
        ('dir-memmap', 'dir_archive', {'memmode': 'r+'}, 'fs'),
        ('dir-json', 'dir_archive', {'protocol': 'json'}, 'fs-json'),
        ('dir-source', 'dir_archive', {'serialized': False}, 'fs'),
        ('sqlite', 'sqltable_archive', {}, 'sql'),
    ]


def is_persistent(cid):
    return cid not in ('dict', 'null')


KEYS = {
    # keys produced by klepto's own keymaps: strings (stringmap/hashmap digests), ints (builtin hash), tuples (raw keymap),
    # bytes (picklemap); plus the pairs that a file-name mapping could confuse
    'any': ['a', 'b', 'a-b', 'a_b', 1, '1', (1, 'a'), b'pk'],
    'fs': ['a', 'b', 'a-b', 'a_b', 1, '1', (1, 'a'), b'pk'],
    'fs-json': ['a', 'b', 'a-b', 'a_b', '1'],
    'json': ['a', 'b', 'a-b', 'a_b', '1'],
    'source': ['a', 'b', 'a-b', 'a_b', 1, '1', (1, 'a'), b'pk'],
    'sql': ['a', 'b', 'a-b', 'a_b', 1, '1', b'pk'],
}
# string keys that look like the names klepto itself uses inside a directory archive (entry prefix K_, temporary prefix .I_,
# leading underscore): a second, small key domain for every configuration
PREFIX_KEYS = ['Kelvin', '_count', '.I_x', 'K', 'a', 'L' * 300]      # ... and a key longer than a file name may be (a stringmap key easily is)
VALUES = {
    'any': ['v1', 2, None, [1, 2.5], {'n': (1, 2)}],
    'fs': ['v1', 2, None, [1, 2.5], {'n': (1, 2)}],
    'fs-json': ['v1', 2, None, [1, 2.5], {'n': [1, 2]}],
    'json': ['v1', 2, None, [1, 2.5], {'n': [1, 2]}],
    'source': ['v1', 2, None, [1, 2.5], {'n': (1, 2)}],
    'sql': ['v1', 2, None, 2.5, b'raw'],
}


class Unencodable(object):
    """a value no backend can encode (pickle, json, source text, sqlite binding all fail)"""

    def __reduce__(self):
        raise TypeError('cannot encode this object')

    def __repr__(self):
        raise TypeError('cannot encode this object')


def location(root, cid, name='store'):
    if cid.startswith('file'):
        ext = {'file-pickle': '.pkl', 'file-json': '.json', 'file-source': '.py'}[cid]
        return os.path.join(root, name + ext)
    if cid.startswith('dir'):
        return os.path.join(root, name)
    if cid == 'sqlite':
        return 'sqlite:///' + os.path.join(root, name + '.db')
    return name


def open_archive(cid, root, name='store', cached=False, table=None):
    import klepto.archives as A
    kind, kw = [(k, dict(w)) for (i, k, w, d) in configs() if i == cid][0]
    cls = getattr(A, kind)
    loc = location(root, cid, name)
    return cls(loc, cached=cached, **kw)


def new_root():
    return tempfile.mkdtemp(prefix='kv_', dir=SCRATCH)


def drop_root(root):
    shutil.rmtree(root, ignore_errors=True)


def contents(a):
    """the archive's contents as a plain dict, read through the mapping protocol"""
    return dict((k, a[k]) for k in list(a.keys()))


def kd(cid):
    return [d for (i, k, w, d) in configs() if i == cid][0]
