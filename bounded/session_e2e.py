"""Child process of the C17 end-to-end check: a decorated function on a persistent archive.
usage: python -m bounded.session_e2e write|read <archive kind> <keymap kind> <location>
Prints info() as JSON after the calls.  The reader must be served by loads only."""
import json
import sys


def build(kind, kmkind, loc):
    import klepto
    from klepto import archives as A
    from klepto import keymaps as KM
    km = {'keymap': KM.keymap(), 'stringmap': KM.stringmap(), 'stringmap-nonflat': KM.stringmap(flat=False),
          'picklemap-dill': KM.picklemap(serializer='dill'), 'picklemap-nonflat': KM.picklemap(flat=False, serializer='pickle'),
          'hashmap-md5': KM.hashmap(algorithm='md5'), 'hashmap-nonflat': KM.hashmap(flat=False, algorithm='sha1'),
          'stringmap-typed': KM.stringmap(typed=True), 'hashmap-md5-typed': KM.hashmap(algorithm='md5', typed=True),
          'picklemap-nonflat-typed': KM.picklemap(flat=False, typed=True, serializer='pickle')}[kmkind]
    if kind == 'dir':
        ar = A.dir_archive(loc, cached=True)
    elif kind == 'file':
        ar = A.file_archive(loc, cached=True)
    elif kind == 'sql':
        ar = A.sqltable_archive('sqlite:///%s' % loc, cached=True)
    else:
        raise ValueError(kind)

    @klepto.inf_cache(cache=ar, keymap=km, ignore=('u', 'v'))
    def f(x, y=2, *args, u=None, v=None, **kw):
        r = ('result', x, y, args, sorted(kw.items()))
        return repr(r) if kind == 'sql' else r       # the sqlite table stores basic values only (documented)
    return f


CALLS = [((1,), {}), ((1, 2), {}), ((), {'y': 5, 'x': 'a'}), ((), {'x': 'a', 'y': 5}), ((1, 2, 3), {'z': 'w', 'q': (1, 2)}),
         ((1, 2, 3), {'q': (1, 2), 'z': 'w'}), (('s',), {'u': 'ignored', 'v': 7}), ((b'bytes', 2.5), {}), ((None,), {'y': frozenset([1, 2, 3])})]

if __name__ == '__main__':
    mode, kind, kmkind, loc = sys.argv[1:5]
    f = build(kind, kmkind, loc)
    if mode == 'read':
        f.load()                 # what a later session does: bring the archive in
        f.__cache__().clear()    # and make sure every answer has to come from the archive itself
    for a, k in CALLS:
        if mode == 'read':
            k = dict(reversed(list(k.items())))      # the later session spells the same calls with the keywords the other way round
        f(*a, **k)
    if mode == 'write':
        f.dump()
    i = f.info()
    print(json.dumps({'hit': i.hit, 'miss': i.miss, 'load': i.load, 'size': i.size}))
