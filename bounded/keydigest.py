"""Child process of the C17 check: compute the keys of the key-path scope under this interpreter's hash seed and
print one digest per (callable, keymap configuration, ignore specification) group -- or, with --detail, the key of
every call of one group.

usage: python -m bounded.keydigest <mode> <first shape> <last shape> [--detail <shape> <callable> <cfg index> <spec index>]
"""
import hashlib
import itertools
import json
import os
import sys

from . import shapes as S
from . import keypath as K
from . import keychecks as KC


def specs_for(shape):
    names = shape.names()
    return [()] + [tuple(p) for p in itertools.combinations(names, 2)] + [('**',), ('*', '**')]


def groups(mode, lo, hi, detail=None):
    (npos, nkwo), maxpos, maxkw = KC._scope(mode)
    _, I, _ = K._mods()
    cfgs = K.configs(include_builtin_hash=False)
    kms = [K.make_keymap(c) for c in cfgs]
    if os.environ.get('KV_SESSION_VARIANT', '0') == '1':
        # sessions differ in their history: this one has seen a key build fail (an argument no serializer can encode)
        for km in kms:
            try:
                km((i for i in range(3)), lock=__import__('threading').Lock())
            except Exception:
                pass
    shapes = S.shapes(npos, nkwo)
    out = {}
    for idx in range(lo, min(hi, len(shapes))):
        shape = shapes[idx]
        entered = []
        for ci, (form, c, desc) in enumerate(S.make_callables(shape, entered, partials=False)):
            calls = [(a, k) for (a, k) in S.call_forms(shape, maxpos, min(maxkw, 2), orders=True) if S.really_binds(c, entered, a, k)[0]]
            for si, spec in enumerate(specs_for(shape)):
                pre = []
                for (a, k) in calls:
                    try:
                        pre.append(I._keygen(c, spec, *a, **dict(k)))
                    except Exception as e:      # noqa
                        pre.append(e.__class__.__name__)
                for j, km in enumerate(kms):
                    if detail is not None and detail != (idx, ci, j, si):
                        continue
                    h = hashlib.sha1()
                    rows = []
                    for (a, k), g in zip(calls, pre):
                        if isinstance(g, str):
                            r = 'raises ' + g
                        else:
                            try:
                                r = repr(km(*g[0], **g[1]))
                            except Exception as e:      # noqa
                                r = 'raises ' + e.__class__.__name__
                        h.update(r.encode('utf-8', 'backslashreplace'))
                        h.update(b'\0')
                        if detail is not None:
                            rows.append([K.call_repr(a, k), r[:300]])
                    out['%d/%d/%d/%d' % (idx, ci, j, si)] = rows if detail is not None else [h.hexdigest()[:16], len(calls)]
    return out


if __name__ == '__main__':
    mode, lo, hi = sys.argv[1], int(sys.argv[2]), int(sys.argv[3])
    detail = None
    if '--detail' in sys.argv:
        i = sys.argv.index('--detail')
        detail = tuple(int(x) for x in sys.argv[i + 1:i + 5])
    json.dump(groups(mode, lo, hi, detail), sys.stdout)
