"""Child process of the C17 check: compute the keys of the key-path scope under this interpreter's hash seed and
print one digest per (callable, keymap configuration, ignore specification) group -- or, with --detail, the key of
every call of one group.

usage: python -m bounded.keydigest <mode> <first shape> <last shape> [--detail <shape> <callable> <cfg index> <spec index>]
"""
import hashlib
import itertools
import json
import os
import sys

from . import shapes as S
from . import keypath as K
from . import keychecks as KC


def specs_for(shape):
    names = shape.names()
    return [()] + [tuple(p) for p in itertools.combinations(names, 2)] + [('**',), ('*', '**')]


class Point(object):
    """a class that exists only in this session's __main__ (this module is run with -m): dill pickles it by reference or by
    value depending on the serializer options a picklemap was configured with"""
    def __init__(self, x, y):
        self.x, self.y = x, y

    def __repr__(self):
        return 'Point(%r, %r)' % (self.x, self.y)

    def __eq__(self, other):
        return type(other) is type(self) and (self.x, self.y) == (other.x, other.y)

    def __hash__(self):
        return hash((self.x, self.y))


def _norm(p, start=0, *more, **opts):
    return None


# functions of this session's __main__ that use several module-level names: dill pickles them by value, and with the library's
# default serializer options the bytes must not depend on the order of any set (e.g. of the global names a function refers to)
SCALE, OFFSET, UNIT, PREC = 3, 1, 'm', 2


def affine(v):
    return round(SCALE * v + OFFSET, PREC)


def labelled(v, sep=' '):
    return '%s%s%s' % (affine(v), sep, UNIT) if PREC else str(SCALE)


class Grid(object):
    """an argument that has a python method called like the function it is passed to"""
    def __init__(self, n):
        self.n = n

    def refine(self, k):
        return Grid(self.n * k)

    def __repr__(self):
        return 'Grid(%r)' % self.n

    def __eq__(self, other):
        return type(other) is type(self) and self.n == other.n

    def __hash__(self):
        return hash(self.n)


def main_class_groups(detail=None):
    """keys of calls whose arguments are instances of a __main__ class, under the serialising keymaps and under picklemaps
    with serializer options (protocol, byref, recurse): 'main/<j>' -> [digest, ncalls] | rows"""
    kmod, I, _ = K._mods()
    kms = [('picklemap dill', kmod.picklemap(serializer='dill')), ('picklemap dill protocol=2', kmod.picklemap(serializer='dill', protocol=2)),
           ('picklemap dill non-flat typed', kmod.picklemap(serializer='dill', flat=False, typed=True)),
           ('picklemap dill recurse', kmod.picklemap(serializer='dill', recurse=True)),
           ('picklemap pickle protocol=2', kmod.picklemap(serializer='pickle', protocol=2)),
           ('hashmap md5 dill', kmod.hashmap(algorithm='md5', serializer='dill')), ('stringmap', kmod.stringmap()),
           ('stringmap of picklemap dill', kmod.stringmap() + kmod.picklemap(serializer='dill')),
           ('hashmap md5 of picklemap dill protocol=2', kmod.hashmap(algorithm='md5') + kmod.picklemap(serializer='dill', protocol=2))]
    # every named hash algorithm the library offers (some exist only through hashlib.new), flat and non-flat
    import klepto.crypto as kc
    for alg in sorted(a for a in kc.algorithms() if a):
        kms.append(('hashmap %s' % alg, kmod.hashmap(algorithm=alg)))
        kms.append(('hashmap %s non-flat' % alg, kmod.hashmap(algorithm=alg, flat=False)))
    if os.environ.get('KV_SESSION_VARIANT', '0') == '1':
        for _, km in kms:
            try:
                km((i for i in range(3)), lock=__import__('threading').Lock())
            except Exception:
                pass
    calls = [((Point(3, 4),), {}), ((Point(3, 4), 1), {}), ((), {'p': Point(3, 4)}), ((Point(1, 2),), {'start': Point(0, 0)}),
             ((Point(1, 2), 0, Point(5, 6)), {'w': Point(7, 8)}), (((1, 2, 3),), {}), ((Point,), {}), ((1,), {'start': Point}), (('text',), {'start': 'word'}), ((b'by', 2.5), {'w': 'x', 'v': None}), (('caf\xe9',), {'start': '\u03c0'})]      # no functions: their repr holds an address
    # functions whose (ignored) first argument has an attribute called like the function: klepto's "is this argument self?" test
    # looks exactly there, and used to be made of assert statements (python -O strips them)
    ns = {}
    exec("def count(s, sub):\n    return 0\n\ndef refine(grid, n):\n    return 0\n", ns)
    extra = [(ns['count'], ('s',), ('text', 't'), {}), (ns['count'], ('s',), ((1, 2, 1), 1), {}), (ns['refine'], ('grid',), (Grid(3), 2), {}),
             (ns['refine'], (0,), (Grid(3), 2), {})]
    out = {}
    for j, (name, km) in enumerate(kms):
        if detail is not None and detail != j:
            continue
        h = hashlib.sha1()
        rows = []
        fcalls = []
        if 'dill' in name and 'recurse' not in name and ' of ' not in name:       # (a chain with a stringmap prints the function: an address)
            # (a picklemap the USER configured with recurse=True gets dill's trimmed, set-ordered globals: not the library's doing)
            fcalls = [((affine, 2), {}), ((labelled,), {'start': affine}), ((1,), {'w': labelled})]
        for item in calls + extra + fcalls:
            try:
                if len(item) == 4:
                    fn_, ign_, a_, k_ = item
                    a, k = (fn_.__name__,) + tuple(a_), dict(k_, ignore=ign_)
                    g = I._keygen(fn_, ign_, *a_, **k_)
                else:
                    a, k = item
                    g = I._keygen(_norm, (), *a, **k)
                r = repr(km(*g[0], **g[1]))
            except Exception as e:      # noqa
                r = 'raises ' + e.__class__.__name__
            h.update(r.encode('utf-8', 'backslashreplace'))
            h.update(b'\0')
            rows.append(['f(%s)' % ', '.join([getattr(x, '__name__', None) or repr(x) for x in a] +
                                             ['%s=%s' % (kk, getattr(vv, '__name__', None) or repr(vv)) for kk, vv in k.items()]),
                         r if len(r) <= 300 else r[:260] + '... sha1 of all %d characters: %s' % (len(r), hashlib.sha1(r.encode('utf-8', 'backslashreplace')).hexdigest()[:16])])
        out['main/%d/%s' % (j, name)] = rows if detail is not None else [h.hexdigest()[:16], len(calls)]
    return out


def _twin(v):
    """a value that is equal to v but prints differently (11 / 11.0, (4,) / (4.0,)), or v itself"""
    if isinstance(v, bool):
        return v
    if isinstance(v, int):
        return float(v)
    if isinstance(v, float) and v == int(v):
        return int(v)
    if isinstance(v, tuple):
        return tuple(_twin(x) for x in v)
    return v


def groups(mode, lo, hi, detail=None):
    (npos, nkwo), maxpos, maxkw = KC._scope(mode)
    _, I, _ = K._mods()
    cfgs = K.configs(include_builtin_hash=False)
    kms = [K.make_keymap(c) for c in cfgs]
    if os.environ.get('KV_SESSION_VARIANT', '0') == '1':
        # sessions differ in their history: this one has seen a key build fail (an argument no serializer can encode)
        for km in kms:
            try:
                km((i for i in range(3)), lock=__import__('threading').Lock())
            except Exception:
                pass
    shapes = S.shapes(npos, nkwo)
    out = {}
    for idx in range(lo, min(hi, len(shapes))):
        shape = shapes[idx]
        entered = []
        for ci, (form, c, desc) in enumerate(S.make_callables(shape, entered, partials=False)):
            calls = [(a, k) for (a, k) in S.call_forms(shape, maxpos, min(maxkw, 2), orders=True) if S.really_binds(c, entered, a, k)[0]]
            for si, spec in enumerate(specs_for(shape)):
                pre = []
                for (a, k) in calls:
                    if os.environ.get('KV_SESSION_VARIANT', '0') == '1':
                        k = list(reversed(k))       # ... and spells every call with its keywords in the opposite order
                    try:
                        pre.append(I._keygen(c, spec, *a, **dict(k)))
                    except Exception as e:      # noqa
                        pre.append(e.__class__.__name__)
                for j, km in enumerate(kms):
                    if detail is not None and detail != (idx, ci, j, si):
                        continue
                    if os.environ.get('KV_SESSION_VARIANT', '0') == '1':
                        # ... and has keyed the equal-but-differently-printed twins of the arguments before (11.0 for 11):
                        # a key must not depend on what was keyed earlier in the process
                        for (a, k) in calls[:12]:
                            try:
                                g2 = I._keygen(c, spec, *tuple(_twin(x) for x in a), **{n: _twin(v) for n, v in k})
                                km(*g2[0], **g2[1])
                            except Exception:      # noqa
                                pass
                    h = hashlib.sha1()
                    rows = []
                    for (a, k), g in zip(calls, pre):
                        if isinstance(g, str):
                            r = 'raises ' + g
                        else:
                            try:
                                r = repr(km(*g[0], **g[1]))
                            except Exception as e:      # noqa
                                r = 'raises ' + e.__class__.__name__
                        h.update(r.encode('utf-8', 'backslashreplace'))
                        h.update(b'\0')
                        if detail is not None:
                            rows.append([K.call_repr(a, k), r if len(r) <= 300 else r[:260] + '... sha1 of all %d characters: %s' % (len(r), hashlib.sha1(r.encode('utf-8', 'backslashreplace')).hexdigest()[:16])])
                    out['%d/%d/%d/%d' % (idx, ci, j, si)] = rows if detail is not None else [h.hexdigest()[:16], len(calls)]
    return out


if __name__ == '__main__':
    mode, lo, hi = sys.argv[1], int(sys.argv[2]), int(sys.argv[3])
    detail = None
    if '--main-detail' in sys.argv:
        json.dump(main_class_groups(int(sys.argv[sys.argv.index('--main-detail') + 1])), sys.stdout)
        sys.exit(0)
    if '--detail' in sys.argv:
        i = sys.argv.index('--detail')
        detail = tuple(int(x) for x in sys.argv[i + 1:i + 5])
    res = groups(mode, lo, hi, detail)
    if lo == 0 and detail is None:
        res.update(main_class_groups())
    json.dump(res, sys.stdout)
