"""The key path of the decorators -- keymap(*_keygen(f, ignore, *args, **kwds)) -- under deal contracts, for the
bounded stand-ins of C09 C10 C11 C17.  (That each wrapper composes exactly rounded_args -> _keygen -> keymap, in
key(), lookup() and the call path alike, is proved at Level A under C18.)

Ground truth for "what a call binds" is CPython: the side-effect-free stub of the same shape is called and returns
what it received.
"""
import itertools

import deal

from . import shapes as S


def _mods():
    import klepto.keymaps as km
    from klepto import _inspect as I
    import klepto
    return km, I, klepto


class Sent(object):
    """a sentinel object with a process-independent repr and pickle"""

    def __repr__(self):
        return 'SENTINEL'

    def __eq__(self, o):
        return isinstance(o, Sent)

    def __hash__(self):
        return 7919

    def __reduce__(self):
        return (Sent, ())


KINDS = ['keymap', 'hashmap:md5', 'stringmap', 'stringmap:latin_1', 'picklemap:repr', 'picklemap:pickle', 'picklemap:dill', 'hashmap:builtin']


CHAINS = ['chain:stringmap>hashmap:md5', 'chain:hashmap:md5>stringmap']      # a + b: the settings of b decide the layout of the key


def configs(include_builtin_hash=True, include_named_encoding=False, include_chains=False):
    out = []
    for kind in KINDS + (CHAINS if include_chains else []):
        if kind == 'hashmap:builtin' and not include_builtin_hash:
            continue
        if kind == 'stringmap:latin_1':
            # klepto.crypto.string() re-lists all codecs on every call with a named encoding (slow): one flat pair of
            # configurations, and only where asked for (C10)
            if include_named_encoding:
                out += [(kind, True, False, False), (kind, True, True, False)]
            continue
        for flat in (True, False):
            if kind == 'hashmap:builtin' and not flat:
                # hash((args, {..})) is a TypeError for every call that has a named argument: the
                # configuration cannot produce keys at all (not a canonicalisation question)
                continue
            for typed in (False, True):
                for sentinel in (False, True):
                    out.append((kind, flat, typed, sentinel))
    return out


def make_keymap(cfg):
    km, I, klepto = _mods()
    kind, flat, typed, sentinel = cfg
    kw = {'flat': flat, 'typed': typed}
    if sentinel:
        kw['sentinel'] = Sent()
    if kind.startswith('chain:'):
        first, second = kind[6:].split('>')
        mk = {'stringmap': lambda **k: km.stringmap(**k), 'hashmap:md5': lambda **k: km.hashmap(algorithm='md5', **k)}
        return mk[first]() + mk[second](**kw)
    if kind == 'keymap':
        return km.keymap(**kw)
    if kind == 'hashmap:md5':
        return km.hashmap(algorithm='md5', **kw)
    if kind == 'hashmap:builtin':
        return km.hashmap(**kw)
    if kind == 'stringmap':
        return km.stringmap(**kw)
    if kind == 'stringmap:latin_1':
        return km.stringmap(encoding='latin_1', **kw)
    if kind == 'picklemap:repr':
        return km.picklemap(**kw)
    if kind == 'picklemap:pickle':
        return km.picklemap(serializer='pickle', **kw)
    if kind == 'picklemap:dill':
        return km.picklemap(serializer='dill', **kw)
    raise ValueError(kind)


def info_preserving(cfg, shape):
    """the configurations C10 lists: raw / string / pickle / named-algorithm hash; non-flat, or flat when a
    sentinel is configured or the signature has no variadic positionals"""
    kind, flat, typed, sentinel = cfg
    if kind == 'hashmap:builtin':
        return False
    if not flat:
        return True
    return sentinel or not shape.varargs


def freeze(x, strict):
    """hashable image of a value; equal images <=> equal values (strict: and equal types)"""
    if isinstance(x, dict):
        return ('dict', frozenset((freeze(k, strict), freeze(v, strict)) for k, v in x.items()))
    if isinstance(x, (tuple, list)):
        return (type(x).__name__ if strict else 'seq' if isinstance(x, tuple) else 'list', tuple(freeze(v, strict) for v in x))
    if isinstance(x, (set, frozenset)):
        return ('set', frozenset(freeze(v, strict) for v in x))
    if strict:
        return (type(x).__name__, x if _hashable(x) else repr(x))
    return x if _hashable(x) else repr(x)


def _hashable(x):
    try:
        hash(x)
        return True
    except TypeError:
        return False


def keyof(km, f, ignore, args, kwitems):
    """the key path as the decorators compose it (tol=None: rounded_args is the identity)"""
    _, I, _ = _mods()
    a, k = I._keygen(f, ignore, *args, **dict(kwitems))
    return km(*a, **k)


def keyimage(key):
    """hashable image of a key under Python equality (what a dict or an archive would compare)"""
    return freeze(key, strict=False)


# ---- contracts ------------------------------------------------------------------------------------
class Table(object):
    """accumulates (binding image, key image) pairs of one (callable, configuration)"""

    def __init__(self):
        self.by_binding = {}
        self.by_key = {}


@deal.ensure(lambda table, b, key, call, result: result is None,
             message='canonical: calls that bind the same values to the same parameters produce the same key')
def record_canonical(table, b, key, call):
    """C09: returns the earlier call that has the same binding but another key, if any"""
    prev = table.by_binding.get(b)
    if prev is None:
        table.by_binding[b] = (key, call)
        return None
    return None if prev[0] == key else prev[1]


@deal.ensure(lambda table, b, key, call, result: result is None,
             message='discriminating: calls that bind unequal values to some parameter produce different keys')
def record_discriminating(table, b, key, call):
    """C10: returns the earlier call that has the same key but another binding, if any"""
    prev = table.by_key.get(key)
    if prev is None:
        table.by_key[key] = (b, call)
        return None
    return None if prev[0] == b else prev[1]


def call_repr(args, kwitems):
    return 'f(%s)' % ', '.join([repr(a) for a in args] + ['%s=%r' % kv for kv in kwitems])


VARIANTS = [1, 1.0, True, '1', (1,), b'1', 'r\u03c0', 'r&#960;']     # the last two: a character a narrow codec cannot encode / its reference


def value_variants(args, kwitems):
    """the call itself plus variants in which the first argument slot takes values that are equal-but-differently
    typed (1, 1.0, True) or that print alike ('1', (1,), b'1')"""
    yield args, kwitems
    # two slots holding equal values of different types, crosswise (2 / 3.0 versus 2.0 / 3)
    slots = [('p', i) for i in range(len(args))] + [('k', i) for i in range(len(kwitems))]
    if len(slots) >= 2:
        for (x, y) in ((2, 3.0), (2.0, 3)):
            a, k = list(args), list(kwitems)
            for (kind, i), v in zip(slots[-2:], (x, y)):
                if kind == 'p':
                    a[i] = v
                else:
                    k[i] = (k[i][0], v)
            yield tuple(a), k
    # two extra positionals that look like a keyword item (name, value): must not collide with the keyword spelling
    if len(args) >= 2:
        from . import shapes as S_
        yield tuple(args[:-2]) + (S_.FOREIGN, S_.kw_value(S_.FOREIGN)), kwitems
    # one argument that is the tuple of the positionals / of their tail: f((a, b)) is not f(a, b), f(a, (b, c)) is not f(a, b, c)
    if len(args) >= 2:
        yield (tuple(args),), kwitems
        yield (args[0], tuple(args[1:])), kwitems
    for v in VARIANTS:
        if args:
            yield (v,) + tuple(args[1:]), kwitems
        elif kwitems:
            yield args, [(kwitems[0][0], v)] + list(kwitems[1:])
