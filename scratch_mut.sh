#!/bin/sh
# usage: scratch_mut.sh <diff> <modfile> <class>
rm -rf /tmp/mut; mkdir -p /tmp/mut; cp -r /repo/klepto /tmp/mut/klepto
(cd /tmp/mut && patch -p1 -s < $1) || exit 9
KLEPTO_REPO=/tmp/mut /verif/.venv/bin/python /verif/scratch_run.py $2 $3 2>&1 | cut -c1-200 | tail -${4:-12}
rm -rf /tmp/mut
