"""Replay of counter-models of wrapper obligations on the real klepto code, and the concrete
(back end 2) evaluation of the same clauses on real objects.

No hook in /repo is needed: the closure state of a real wrapper is reached through
wrapper.__closure__ / __code__.co_freevars; containers are written in place, immutable
configuration (maxsize, purge, keymap) is fixed by decorating with the model's values.
"""
import collections
import importlib
import json
import sys

BASE = 1000


class UserErr(Exception):
    pass


class KeygenErr(Exception):
    pass


class RejectErr(TypeError):
    """raised by the rejecting archive of the replay harness: a value the backend cannot encode"""


def _mods():
    import klepto
    import klepto.safe
    import klepto._archives as ka
    import klepto.keymaps as km
    return klepto, ka, km


def cells(w):
    return dict(zip(w.__code__.co_freevars, (c.cell_contents for c in w.__closure__)))


def find_roles(w):
    """bookkeeping objects of a real wrapper, identified by type"""
    cl = cells(w)
    roles = {'queue': None, 'counter': None, 'stats': None, 'cache': None, 'sentinel': None}
    for nm, v in cl.items():
        if isinstance(v, collections.deque):
            roles['queue'] = v
        elif type(v).__name__ == 'Counter' and isinstance(v, dict):
            roles['counter'] = v
        elif isinstance(v, list) and len(v) == 3 and all(isinstance(x, int) for x in v):
            roles['stats'] = v
        elif type(v) is object:
            roles['sentinel'] = v
    roles['cache'] = w.__cache__()
    return roles


class Sigma(object):
    """concrete snapshot of the abstract state of a real decorated function"""

    def __init__(self, w, roles=None):
        _, ka, _ = _mods()
        r = roles or find_roles(w)
        c = r['cache']
        self.mem = dict(c)
        arch = c.archive if hasattr(c, '__swap__') else None
        swap = getattr(c, '__swap__', None)
        self.A_null = arch is None or isinstance(arch, ka.null_archive)
        self.S_null = swap is None or isinstance(swap, ka.null_archive)
        self.A = {} if self.A_null else dict(arch.__asdict__())
        self.S = {} if self.S_null else dict(swap.__asdict__())
        self.A_id = id(arch)
        self.S_id = id(swap)
        self.stats = list(r['stats']) if r['stats'] is not None else None
        try:
            # the statistics as the function reports them (the observable C15/C16 speak about), not the list in the closure
            i = w.info()
            self.stats = [i.hit, i.miss, i.load]
        except Exception:      # noqa
            pass
        self.queue = list(r['queue']) if r['queue'] is not None else None
        self.counter = dict(r['counter']) if r['counter'] is not None else None


def hashable(k):
    try:
        hash(k)
        return True
    except TypeError:
        return False


def build(spec):
    """construct the real decorated function in the model's pre-state -> (wrapper, ctx)"""
    klepto, ka, km = _mods()
    mod = importlib.import_module(spec['module'])
    cls = getattr(mod, spec['cls'])
    calls = []
    raising_keys = set()

    def val(x):
        return ('R', repr(x))

    user_raises = spec.get('call', {}).get('user_raises', False)
    call_elem = spec.get('call', {}).get('key_elem')

    ignore = spec.get('ignore')

    recursive = bool(spec.get('recursive'))
    w_holder = [None]

    def F(x):
        calls.append(x)
        if user_raises and x == arg_of(call_elem):
            raise UserErr(x)
        if recursive and isinstance(x, int) and x > BASE:
            w_holder[0](x - 1)          # memoised recursion: the function calls its own decorated self
        return val(x)

    if ignore is not None:
        F1 = F

        def F(x, verbose=None):         # noqa: F811  (the ignored parameter exists only in the ignore configuration)
            return F1(x)
    elif spec.get('kwonly'):
        F1 = F

        def F(x, *, unit=None):         # noqa: F811  (a keyword-only default: key generation adds it to the named arguments of every call)
            return F1(x)

    unhash = set(spec.get('unhashable', []))

    def arg_of(e):
        if e is None:
            return 'no-key'
        return [e] if e in unhash else BASE + e

    class RK(km.keymap):
        def __call__(self, *a, **k):
            if spec.get('call', {}).get('keygen_raises'):
                raise KeygenErr('keymap')
            return km.keymap.__call__(self, *a, **k)

    rejections = []
    rejected_values = set()

    class RejectingArchive(ka.dict_archive):
        """an archive whose backend cannot encode some values (like json and a complex number): writing one raises, a bulk
        write stores the entries before the offending one"""
        def __setitem__(self, k, v):
            if v in rejected_values:
                rejections.append(k)
                raise RejectErr('cannot encode %r' % (v,))
            ka.dict_archive.__setitem__(self, k, v)

        def update(self, adict, **kw):
            for k, v in dict(adict, **kw).items():
                self[k] = v

    def mkarch(d, rejecting=False):
        if d is None:
            return ka.null_archive()
        return RejectingArchive() if rejecting else ka.dict_archive()

    A = mkarch(spec['A'], bool(spec.get('rejects')))
    S = mkarch(spec['S'])
    # decoration happens in the configuration the history started from (`arch0`: archive attached or not); whatever a
    # decorator captures at that moment must stay right when the archive is toggled later
    arch0 = spec.get('arch0')
    if arch0 == 'dict':
        c = ka.cache(archive=ka.dict_archive())
    elif arch0 == 'none':
        c = ka.cache(archive=ka.null_archive())
    else:
        c = ka.cache(archive=A)
        c.__swap__ = S
    kwargs = dict(cache=c, keymap=RK())
    if ignore is not None:
        kwargs['ignore'] = ignore       # a bare string naming a parameter, as klepto's documentation writes it
    if spec['cls'] not in ('no_cache', 'inf_cache'):
        kwargs['maxsize'] = spec['maxsize']
        kwargs['purge'] = spec['purge']
    dec = cls(**kwargs)
    w = dec(F)
    w_holder[0] = w
    if arch0 is not None:
        c.__archive__ = A
        c.__swap__ = S
    roles = find_roles(w)
    sentinel = roles['sentinel']
    se = spec.get('sentinel_elem')

    def key_of(e):
        if se is not None and e == se and sentinel is not None:
            return sentinel
        if ignore is not None or spec.get('kwonly'):
            # the storage key as the key path defines it (the real _keygen and the raw keymap; their own behaviour is C09-C11)
            import klepto._inspect as ki
            a2, k2 = ki._keygen(F, ignore if ignore is not None else (), arg_of(e))
            return km.keymap()(*a2, **k2)
        return ('x', arg_of(e))

    def fill(target, d):
        for e, _ in sorted(d.items(), key=lambda kv: int(kv[0])):
            e = int(e)
            dict.__setitem__(target, key_of(e), val(arg_of(e)))
    fill(c, spec['mem'])
    if spec['A'] is not None:
        fill(A, spec['A'])
    if spec['S'] is not None:
        fill(S, spec['S'])
    if roles['stats'] is not None:
        roles['stats'][:] = list(spec['stats'])
    if roles['queue'] is not None and spec.get('queue') is not None:
        roles['queue'].extend(key_of(e) for e in spec['queue'])
    if roles['counter'] is not None and spec.get('counter') is not None:
        for e, n in spec['counter'].items():
            dict.__setitem__(roles['counter'], key_of(int(e)), n)
    for e in spec.get('rejects') or []:
        rejected_values.add(val(arg_of(e)))
    ctx = {'calls': calls, 'roles': roles, 'key_of': key_of, 'arg_of': arg_of, 'val': val, 'F': F, 'rejections': rejections}
    return w, ctx


def perform(spec, w, ctx):
    """-> (outcome, value)  outcome in 'return'/'raise'"""
    op = spec['op']
    try:
        if op == 'call':
            r = w(ctx['arg_of'](spec['call']['key_elem']))
        elif op == 'key':
            r = w.key(ctx['arg_of'](spec['call']['key_elem']))
        elif op == 'lookup':
            r = w.lookup(ctx['arg_of'](spec['call']['key_elem']))
        elif op == 'info':
            r = w.info()
        elif op == 'clear':
            mode = spec.get('clear_mode', 'default')
            keep = bool(spec.get('keep', False))
            r = w.clear() if mode == 'default' else (w.clear(keep) if mode == 'positional' else w.clear(keepstats=keep))
        elif op == 'load':
            r = w.load(*[ctx['key_of'](e) for e in spec.get('keys', [])])
        elif op == 'dump':
            r = w.dump(*[ctx['key_of'](e) for e in spec.get('keys', [])])
        elif op == 'archived':
            r = w.archived(bool(spec['flag']))
        elif op == 'attach':
            # a (new, empty) archive is attached after decoration
            _, ka, _ = _mods()
            r = w.archive(ka.dict_archive())
        else:
            return ('unsupported', op)
        return ('return', r)
    except BaseException as e:      # noqa
        return ('raise', e)


# ---- concrete clause evaluation ---------------------------------------------------------------
def eval_clause(clause, spec, pre, post, outcome, value, ctx):
    """True = clause holds, False = violated, None = not evaluable concretely"""
    pol = spec['cls'].split('_')[0]
    safe = spec['module'].endswith('safe')
    M = spec.get('maxsize')
    calls = ctx['calls']
    op = spec['op']
    call = spec.get('call') or {}
    e = call.get('key_elem')
    kd = not call.get('keygen_raises', False)
    key = ctx['key_of'](e) if (e is not None and kd) else None
    H = hashable(key) if key is not None else False
    usable = kd and key is not None and H
    inmem = usable and key in pre.mem
    on = not pre.A_null
    inarch = usable and on and key in pre.A
    normal = outcome == 'return'
    arg = ctx['arg_of'](e) if e is not None else None
    name = clause.split('/')[-1]
    if name == 'size.bound':
        bound = len(pre.mem) if pol == 'no' else max(M, len(pre.mem))
        return len(post.mem) <= max(bound, 0)
    if name == 'size.nothing_resident':
        return (not (normal and usable)) or len(post.mem) == 0
    if name == 'size.never_evicts':
        return all(k in post.mem and post.mem[k] == v for k, v in pre.mem.items())
    if name == 'size.purge_empties':
        overflow = usable and not inmem and len(pre.mem) + 1 > M
        return (not (normal and on and spec.get('purge') and overflow)) or len(post.mem) == 0
    if name == 'raises.only_listed':
        if normal:
            return True
        if isinstance(value, UserErr):
            return True
        if isinstance(value, KeygenErr):
            return not safe
        return (not safe) and isinstance(value, TypeError) and kd and not H
    if name.startswith('raises.state_unchanged'):
        if normal:
            return True
        part = name[name.index('[') + 1:-1]
        return same_part(part, pre, post)
    if name == 'raises.user_exception_propagates':
        if call.get('user_raises') and calls:
            return (not normal) and isinstance(value, UserErr)
        return True
    if name.startswith('stats.'):
        if not normal or post.stats is None:
            return None if post.stats is not None else False
        called = len(calls) >= 1
        if pol == 'no':
            hitc, loadc = False, usable and (inmem or inarch)
        else:
            hitc, loadc = inmem, usable and (not inmem) and inarch
        exp = [pre.stats[0] + (1 if hitc else 0), pre.stats[1] + (1 if called else 0), pre.stats[2] + (1 if loadc else 0)]
        if name == 'stats.hit':
            return post.stats[0] == exp[0]
        if name == 'stats.miss':
            return post.stats[1] == exp[1]
        if name == 'stats.load':
            return post.stats[2] == exp[2]
        if name == 'stats.one_per_call':
            return sum(post.stats) == sum(pre.stats) + 1
    if name == 'result.equals_function':
        return (not normal) or value == ctx['val'](arg)
    if name == 'stored_under_key':
        # whatever the call stored, it stored under key(args): no other key is new in memory or in the archive
        def keys_of(sn):
            out = list(sn.mem)
            for d in (sn.A, sn.S):
                if d:
                    out += list(d)
            return out
        before = keys_of(pre)
        new = [k for k in keys_of(post) if not any(k == b for b in before)]
        return all(kd and k == key for k in new)
    if name == 'evals.at_most_once':
        return len(calls) <= 1
    if name == 'evals.original_arguments':
        return all(c == arg for c in calls)
    if name == 'evals.iff_not_retrievable':
        retr = usable and (inmem or inarch)
        if safe:
            miss = not retr
        else:
            miss = usable and not retr
        return (len(calls) >= 1) == miss
    if name == 'evicted_entries_are_archived':
        if not (normal and on):
            return True
        M0 = dict(pre.mem)
        if usable and not inmem:
            M0[key] = value
        for k, v in M0.items():
            if not ((k in post.mem and post.mem[k] == v) or (k in post.A and post.A[k] == v)):
                return False
        return True
    if name == 'rejected_archive_write_loses_nothing':
        # order of dump and drop: an entry is in the archive before it leaves memory, so a write the backend rejected
        # cannot have cost an entry
        if not ctx.get('rejections'):
            return True
        M0 = dict(pre.mem)
        if usable and not inmem and (calls or inarch):
            M0[key] = ctx['val'](arg)
        return all((k in post.mem and post.mem[k] == v) or (k in post.A and post.A[k] == v) for k, v in M0.items())
    if name == 'rejected_archive_write_propagates':
        return (not ctx.get('rejections')) or (outcome == 'raise' and isinstance(value, RejectErr))
    if name == 'archive_entries_preserved':
        return all(k in post.A and post.A[k] == v for k, v in pre.A.items())
    if name == 'parked_archive_untouched':
        return pre.S == post.S
    if name == 'hit_removes_nothing':
        return (not (normal and inmem)) or pre.mem == post.mem
    if name == 'no_overflow_removes_nothing':
        noov = usable and not inmem and len(pre.mem) + 1 <= M
        return (not (normal and noov)) or all(k in post.mem for k in pre.mem)
    if name == 'new_entry_resident_without_overflow':
        noov = usable and not inmem and len(pre.mem) + 1 <= M
        return (not (normal and noov)) or key in post.mem
    if name.startswith('inv.') or name.startswith('init.'):
        return eval_inv(name.split('.', 1)[1], spec, post, ctx)
    if name == 'never_evaluates':
        return len(calls) == 0
    if name.startswith('modifies_nothing'):
        part = name[name.index('[') + 1:-1]
        return same_part(part, pre, post)
    if name == 'returns_storage_key':
        return (not normal) or (kd and value == key)
    if name == 'returns_resident_value':
        return (not normal) or (usable and key in pre.mem and value == pre.mem[key])
    if name == 'raises' and op == 'lookup':
        if normal:
            return True
        if isinstance(value, KeygenErr):
            return not kd
        if isinstance(value, KeyError):
            return usable and key not in pre.mem
        if isinstance(value, TypeError):
            return kd and not H
        return False
    if name == 'empties_memory':
        return len(post.mem) == 0
    if name == 'stats.zeroed_unless_kept':
        keep = bool(spec.get('keep', False)) and spec.get('clear_mode', 'default') != 'default'
        return post.stats == (pre.stats if keep else [0, 0, 0])
    if name.startswith('bookkeeping_emptied'):
        return (post.queue in (None, [])) and (post.counter in (None, {}))
    if name == 'archives_untouched':
        return pre.A == post.A and pre.S == post.S and pre.A_id == post.A_id and pre.S_id == post.S_id
    if name.startswith('field.'):
        f = name.split('.', 1)[1]
        if not normal:
            return False
        want = {'hit': pre.stats[0], 'miss': pre.stats[1], 'load': pre.stats[2], 'size': len(pre.mem),
                'maxsize': 0 if pol == 'no' else (None if pol == 'inf' else M)}
        return getattr(value, f, object()) == want[f]
    if name == 'frame.archive_binding':
        return pre.A_id == post.A_id and pre.S_id == post.S_id
    if name == 'survivors_keep_their_values':
        return all(post.mem[k] == v for k, v in pre.mem.items() if k in post.mem)
    if name.split('.')[0] in ('lru', 'mru', 'lfu', 'rr'):
        return eval_policy(name, pol, spec, pre, post, normal, usable, inmem, on, key, M)
    return None


def _last_index(q):
    out = {}
    for i, k in enumerate(q):
        out[k] = i
    return out


def eval_policy(name, pol, spec, pre, post, normal, usable, inmem, on, key, M):
    """concrete evaluation of the C06 policy clauses (same statements as contracts/wrappers.py)"""
    if not normal:
        return True
    evict = usable and (not inmem) and len(pre.mem) + 1 > M and not (on and spec.get('purge'))
    removed = [k for k in list(pre.mem) + ([key] if usable else []) if k not in post.mem]
    removed = list(dict.fromkeys(removed))
    what = name.split('.', 1)[1]
    if pol == 'lfu':
        U0, U1 = pre.counter, post.counter
        u0 = lambda t: U0.get(t, 0)
        ucur = lambda t: u0(t) + (1 if (usable and t == key) else 0)
        coh = all(k in U0 for k in pre.mem)
        if what == 'use_recorded':
            return (not (usable and key in post.mem)) or (U1.get(key) == u0(key) + 1)
        if what == 'other_counts_unchanged':
            return all(k in U0 and U1[k] == U0[k] for k in U1 if not (usable and k == key))
        if what == 'victims_least_frequent':
            return (not (evict and coh)) or all(ucur(x) <= ucur(y) for x in removed for y in post.mem)
        if what == 'bookkeeping_covers_residents':
            return (not coh) or all(k in U1 for k in post.mem)
    if pol in ('lru', 'mru'):
        q0, q1 = pre.queue, post.queue
        l0, l1 = _last_index(q0), _last_index(q1)
        coh = all(k in l0 for k in pre.mem)
        if what == 'use_recorded':
            return (not (usable and key in post.mem)) or (len(q1) > 0 and q1[-1] == key)
        if what == 'recency_order_preserved':
            ks = [k for k in post.mem if k in l0 and k in l1 and not (usable and k == key)]
            return all((l0[a] < l0[b]) == (l1[a] < l1[b]) for a in ks for b in ks if a != b)
        if what == 'bookkeeping_covers_residents':
            return (not coh) or all(k in l1 for k in post.mem)
        if what == 'victim':
            if not (evict and coh):
                return True
            if key not in post.mem or len(post.mem) != len(pre.mem):
                return False
            for x in removed:
                for y in pre.mem:
                    if y != x:
                        if y not in post.mem:
                            return False
                        if x not in l0:
                            return False
                        older = l0[x] < l0[y] if pol == 'lru' else l0[x] > l0[y]
                        if not older:
                            return False
            return True
    if pol == 'rr':
        if what == 'exactly_one_victim':
            return (not evict) or (len(post.mem) == len(pre.mem) and len(removed) == 1)
    return None


def same_part(part, pre, post):
    if part == 'mem':
        return pre.mem == post.mem
    if part == 'archive':
        return pre.A == post.A and pre.A_null == post.A_null
    if part == 'parked':
        return pre.S == post.S and pre.S_null == post.S_null
    if part == 'stats':
        return pre.stats == post.stats
    if part == 'queue':
        return pre.queue == post.queue
    if part == 'counter':
        return pre.counter == post.counter
    return None


def eval_inv(name, spec, sg, ctx):
    pol = spec['cls'].split('_')[0]
    if name.startswith('Inv_val'):
        which = name[name.index('[') + 1:-1]
        d = {'mem': sg.mem, 'A': sg.A, 'S': sg.S}[which]
        if spec.get('ignore') is not None or spec.get('kwonly'):
            # keys carry the ignored parameter too: x is the value that follows the name 'x' in the flat raw key
            return all(isinstance(v, tuple) and v and v[0] == 'R' and isinstance(k, tuple) and 'x' in k and
                       v == ctx['val'](k[k.index('x') + 1]) for k, v in d.items())
        return all(isinstance(v, tuple) and v and v[0] == 'R' and isinstance(k, tuple) and len(k) == 2 and
                   v == ctx['val'](k[1]) for k, v in d.items())
    if name == 'Inv_lfu':
        return all(k in sg.mem and n >= 1 for k, n in sg.counter.items())
    if name == 'Inv_lru.refcount':
        c = collections.Counter(sg.queue)
        return all(sg.counter.get(k, 0) == c.get(k, 0) for k in set(c) | set(sg.counter))
    if name == 'Inv_lru.resident':
        return all(k in sg.mem for k in sg.queue)
    if name == 'Inv_lru.sentinel':
        s = ctx['roles']['sentinel']
        return s not in sg.queue
    if name == 'Inv_mru.hashable':
        return all(hashable(k) for k in sg.queue)
    if name == 'stats>=0':
        return all(x >= 0 for x in sg.stats)
    return None


def spec_of(spec0, w, ctx):
    """abstract state of a live wrapper as a spec (inverse of build); None if it holds keys outside the universe"""
    roles = ctx['roles']
    sg = Sigma(w, roles)

    def elem(k):
        if roles['sentinel'] is not None and k is roles['sentinel']:
            return 'se'
        if isinstance(k, tuple) and len(k) == 2 and k[0] == 'x' and isinstance(k[1], int):
            return k[1] - BASE
        if spec0.get('ignore') is not None or spec0.get('kwonly'):
            for e in range(int(spec0.get('universe', 3)) + 2):
                try:
                    if ctx['key_of'](e) == k:
                        return e
                except Exception:      # noqa
                    pass
        raise KeyError(k)
    try:
        out = dict(spec0)
        out['mem'] = {str(elem(k)): 'R' for k in sg.mem}
        out['A'] = None if sg.A_null else {str(elem(k)): 'R' for k in sg.A}
        out['S'] = None if sg.S_null else {str(elem(k)): 'R' for k in sg.S}
        out['stats'] = list(sg.stats) if sg.stats is not None else [0, 0, 0]
        if sg.queue is not None:
            out['queue'] = [elem(k) for k in sg.queue]
            if 'se' in out['queue']:
                return None
        if sg.counter is not None:
            out['counter'] = {str(elem(k)): n for k, n in sg.counter.items()}
        return out
    except KeyError:
        return None


def run(spec):
    """replay a spec on the real code -> dict(confirmed, outcome, observed...)"""
    w, ctx = build(spec)
    pre = Sigma(w, ctx['roles'])
    outcome, value = perform(spec, w, ctx)
    if outcome == 'unsupported':
        return {'confirmed': None, 'why': 'operation %s has no replay' % value}
    post = Sigma(w, ctx['roles'])
    holds = eval_clause(spec['clause'], spec, pre, post, outcome, value, ctx)
    obs = {'outcome': outcome, 'value': repr(value), 'evaluations': [repr(c) for c in ctx['calls']],
           'pre': snap_repr(pre), 'post': snap_repr(post), 'clause_holds': holds}
    return {'confirmed': (holds is False), 'observed': obs}


def snap_repr(s):
    return {'mem': repr(s.mem), 'archive': None if s.A_null else repr(s.A), 'parked': None if s.S_null else repr(s.S),
            'stats': s.stats, 'queue': repr(s.queue), 'counter': repr(s.counter)}


# ---- spec from a z3 model ------------------------------------------------------------------------
def spec_from_model(case, op, extra, model, elems, clause):
    """read the concrete pre-state of `op` off a (small-scope) z3 model"""
    import z3
    from pyvc.symex import Hashable
    pre = extra['pre']

    def ev(t):
        return model.eval(t, model_completion=True)

    def tru(t):
        return z3.is_true(ev(t))

    n = len(elems)

    def dom_map(d):
        return {str(i): 'R' for i, e in enumerate(elems) if tru(d.dom[e])}
    spec = {'module': case.modname, 'cls': case.clsname, 'op': op, 'clause': clause,
            'maxsize': ev(case.M).as_long(), 'purge': tru(case.P), 'universe': n,
            'unhashable': [i for i, e in enumerate(elems) if not tru(Hashable(e))],
            'mem': dom_map(pre.mem), 'A': None if tru(pre.A.null) else dom_map(pre.A),
            'S': None if tru(pre.S.null) else dom_map(pre.S),
            'stats': [ev(t).as_long() for t in pre.stats]}
    se = case.sentinel_term()
    if se is not None:
        for i, e in enumerate(elems):
            if tru(e == se):
                spec['sentinel_elem'] = i

    def elem_of(t):
        for i, e in enumerate(elems):
            if tru(t == e):
                return i
        return None
    if pre.q is not None:
        lo, hi = ev(pre.q.lo).as_long(), ev(pre.q.hi).as_long()
        if hi - lo > 64:
            return None
        spec['queue'] = [elem_of(pre.q.arr[j]) for j in range(lo, hi)]
        if any(x is None for x in spec['queue']):
            return None
    if pre.C is not None:
        spec['counter'] = {str(i): ev(pre.C.val[e]).as_long() for i, e in enumerate(elems) if tru(pre.C.dom[e])}
    if op in ('call', 'key', 'lookup'):
        a0, k0 = extra['a0'], extra['k0']
        key, kd, _ = case.key_terms(a0, k0)
        from contracts.wrappers import Fraises
        spec['call'] = {'key_elem': elem_of(key) if tru(kd) else 0, 'keygen_raises': not tru(kd),
                        'user_raises': tru(Fraises(a0, k0))}
    if op == 'clear':
        spec['clear_mode'] = extra.get('mode', 'default')
        spec['keep'] = tru(extra['keep']) if extra.get('keep') is not None else False
    return spec


if __name__ == '__main__':
    spec = json.load(open(sys.argv[1]))
    r = run(spec.get('spec', spec))
    print(json.dumps(r, indent=1))
    sys.exit(1 if r.get('confirmed') else 0)
