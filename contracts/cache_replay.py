"""Concrete search for a failing input of klepto._archives.cache against the sentences of C08 (and the contract
contracts/kcache.py), on the REAL class: all states over two keys and three values (None included) with a
dict archive / a null archive in each slot, every operation of the contract.  Used to attach a failing input
to a failed proof obligation of contracts/cache_class.py and as the bounded consistency guard of that contract.
"""
import itertools


def _mods():
    import klepto._archives as ka
    return ka


K1 = ('k1', 'k0')       # a raw-keymap key is a tuple; this one even contains the other key
KEYS = ['k0', K1]
VALS = ['a', 'b', None]


def maps():
    out = [{}]
    for k in KEYS:
        out = [dict(list(m.items()) + [(k, v)]) for m in out for v in VALS] + out
    # dedupe
    seen, res = set(), []
    for m in out:
        t = tuple(sorted(m.items(), key=lambda kv: repr(kv[0])))
        if t not in seen:
            seen.add(t)
            res.append(m)
    return res


def build(mem, A, S):
    ka = _mods()
    def mk(d):
        if d is None:
            return ka.null_archive()
        a = ka.dict_archive()
        for k, v in d.items():
            dict.__setitem__(a, k, v)
        return a
    c = ka.cache(archive=mk(A))
    c.__swap__ = mk(S)
    for k, v in mem.items():
        dict.__setitem__(c, k, v)
    return c


def snap(c):
    ka = _mods()
    a, s = c.__archive__, c.__swap__
    return {'mem': dict(c), 'A': None if isinstance(a, ka.null_archive) else dict(a), 'S': None if isinstance(s, ka.null_archive) else dict(s),
            'A_raw': dict(a), 'S_raw': dict(s), 'A_id': id(a), 'S_id': id(s)}


def overlay(base, top):
    d = dict(base)
    d.update(top)
    return d


OPS = [('load', ()), ('load', ('k0',)), ('load', ('k0', K1)), ('load', ('zz',)), ('dump', ()), ('dump', ('k0',)),
       ('dump', (K1, 'k0')), ('dump', ('zz',)), ('sync', ()), ('sync', (True,)), ('archived', ()), ('archived', (True,)),
       ('archived', (False,)), ('drop', ()), ('getitem', ('k0',)), ('setitem', ('k0', 'b')), ('delitem', ('k0',)),
       ('pop', ('k0',)), ('clear', ()), ('update', ({K1: 'a'},)), ('dump', (K1,)), ('load', (K1,))]


def expected(op, args, pre):
    """-> dict of expected post components (only those the statement of C08 determines), or 'raises'"""
    mem, A, S = pre['mem'], pre['A'], pre['S']
    on = A is not None
    exp = {}
    if op == 'load':
        exp['A'], exp['S'] = A, S
        src = A or {}
        if not args:
            exp['mem'] = overlay(mem, src)
        else:
            exp['mem'] = overlay(mem, {k: src[k] for k in args if k in src})
    elif op == 'dump':
        exp['mem'], exp['S'] = mem, S
        if not on:
            exp['A'] = None
        elif not args:
            exp['A'] = overlay(A, mem)
        else:
            exp['A'] = overlay(A, {k: mem[k] for k in args if k in mem})
    elif op == 'sync':
        clear = bool(args and args[0])
        exp['S'] = S
        if not on:
            exp['A'], exp['mem'] = None, mem
        elif clear:
            exp['A'], exp['mem'] = dict(mem), mem
        else:
            exp['A'] = overlay(A, mem)
            exp['mem'] = dict(exp['A'])
    elif op in ('getitem', 'setitem', 'delitem', 'pop', 'clear', 'update'):
        exp['A'], exp['S'] = A, S          # plain dict operations never touch the archive
    return exp


def search(limit=None):
    """-> (evaluations, states, first violation or None)"""
    n = 0
    states = 0
    ms = maps()
    arch_opts = [None] + ms
    for mem in ms:
        for A in arch_opts:
            for S in (None, {}, {'k1': 'b'}):
                states += 1
                for (op, args) in OPS:
                    c = build(mem, A, S)
                    pre = snap(c)
                    out = None
                    try:
                        if op == 'getitem':
                            out = c[args[0]]
                        elif op == 'setitem':
                            c[args[0]] = args[1]
                        elif op == 'delitem':
                            del c[args[0]]
                        else:
                            out = getattr(c, op)(*args)
                        exc = None
                    except Exception as e:      # noqa
                        exc = e
                    post = snap(c)
                    n += 1
                    bad = judge(op, args, pre, post, out, exc)
                    if bad:
                        return n, states, {'op': op, 'args': enc_args(args), 'pre': enc_state(_j(pre)), 'post': enc_state(_j(post)), 'returned': repr(out),
                                           'raised': repr(exc), 'violated': bad, 'text': 'cache %r, operation %s%r -> %r' % (_j(pre), op, args, _j(post))}
                    if limit and n >= limit:
                        return n, states, None
    return n, states, None


def _j(s):
    return {k: s[k] for k in ('mem', 'A', 'S')}


def enc_key(k):
    return {'tuple': [enc_key(x) for x in k]} if isinstance(k, tuple) else k


def dec_key(k):
    return tuple(dec_key(x) for x in k['tuple']) if isinstance(k, dict) and 'tuple' in k else k


def enc_state(s):
    """JSON image of a (mem, A, S) state: maps as lists of [key, value] with tuple keys spelled out"""
    return {c: (None if s[c] is None else [[enc_key(k), v] for k, v in s[c].items()]) for c in ('mem', 'A', 'S')}


def dec_state(j):
    return {c: (None if j[c] is None else {dec_key(k): v for k, v in j[c]}) for c in ('mem', 'A', 'S')}


def enc_args(args):
    return [({'dict': [[enc_key(k), v] for k, v in a.items()]} if isinstance(a, dict) else enc_key(a)) for a in args]


def dec_args(args):
    return tuple(({dec_key(k): v for k, v in a['dict']} if isinstance(a, dict) and 'dict' in a else dec_key(a)) for a in args)


def judge(op, args, pre, post, out, exc):
    # a null archive always stays empty
    if post['A'] is None and post['A_raw']:
        return 'null_archive_stays_empty[A]'
    if post['S'] is None and post['S_raw']:
        return 'null_archive_stays_empty[S]'
    if op in ('load', 'dump', 'sync'):
        if exc is not None:
            return '%s.never_raises_for_hashable_keys: %r' % (op, exc)
        if (post['A_id'], post['S_id']) != (pre['A_id'], pre['S_id']):
            return 'binding_unchanged'
    if op == 'archived':
        if not args:
            if exc is not None or out != (pre['A'] is not None):
                return 'archived().reports_on'
            if _j(pre) != _j(post):
                return 'archived().changes_nothing'
        else:
            f = bool(args[0])
            if post['mem'] != pre['mem']:
                return 'contents_untouched'
            want_swap = (f and pre['S'] is not None) or ((not f) and pre['A'] is not None)
            if exc is not None:
                if not (isinstance(exc, ValueError) and f and pre['S'] is None and pre['A'] is None):
                    return 'toggle.raises_only_without_any_archive'
            else:
                swapped = (post['A_id'], post['S_id']) == (pre['S_id'], pre['A_id'])
                same = (post['A_id'], post['S_id']) == (pre['A_id'], pre['S_id'])
                if want_swap and not swapped:
                    return 'toggle.swaps_exactly_when_needed'
                if (not want_swap) and not same:
                    return 'toggle.swaps_exactly_when_needed'
            return None
    if op == 'drop':
        if exc is None and post['A'] is not None:
            return 'archive_is_null_afterwards'
        return None
    exp = expected(op, args, pre)
    for k, v in exp.items():
        if post[k] != v:
            return {'load': {'mem': 'load.cache_is_cache_overlaid_by_archive(keys)', 'A': 'archive_unchanged', 'S': 'parked_archive_untouched'},
                    'dump': {'A': 'dump.archive_is_archive_overlaid_by_cache(keys)', 'mem': 'memory_unchanged', 'S': 'parked_archive_untouched'},
                    'sync': {'A': 'sync.archive', 'mem': 'sync.cache', 'S': 'parked_archive_untouched'}}.get(op, {}).get(
                        k, 'dict_operation_touched_the_archive[%s]' % k)
    return None


if __name__ == '__main__':
    print(search())
