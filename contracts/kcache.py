"""Contract of klepto._archives.cache (DESIGN.md Appendix B), written as an executable
abstract model over (mem, A, S):

  mem : the dict part of the cache object           (DictObj, cls = KCACHE)
  A   : the archive currently bound  (__archive__)   (ArchiveObj)
  S   : the parked archive           (__swap__)      (ArchiveObj)

The same text is used twice: (1) at call sites inside the wrapper proofs (a caller is
checked against this contract, never against the body of cache.load/dump/...), and
(2) as the proof goal for the real bodies in klepto/_archives.py (contracts/cache_class.py):
every path of the real body must end in a state equal to one of the contract's cases.
"""
import z3
from pyvc.symex import (forall, ExcIsInst, EXC_IDS, Val, INT, BOOL, fresh, Hashable, NoneC, Opaque, IntV, BoolV, NONE, StrV,
                        TupleV, Ref, FuncV, BoundV, ClassV, PropertyV, Exc, CallArgs, Unsupported)
from pyvc import models
from pyvc.models import DictObj, ArchiveObj, EMPTY_SET, overlay


def _mem(st, ref):
    return st.get(ref)


def _A(st, ref):
    return st.get(ref).attrs['__archive__']


def _S(st, ref):
    return st.get(ref).attrs['__swap__']


def c_archived(I, st, ca):
    """archived() -> not A.null ; archived(flag) toggles by swapping A and S"""
    self_ = ca.pos[0]
    on = ca.pos[1:]
    if not ca.plain() or ca.kw:
        raise Unsupported('cache.archived with keywords')
    a_ref, s_ref = _A(st, self_), _S(st, self_)
    A, S = st.get(a_ref), st.get(s_ref)
    if not on:
        return [(st, BoolV(z3.Not(A.null)))]
    if len(on) > 1:
        return [(st, Exc('TypeError', origin='archived expected at most 1 argument'))]
    out = []
    for (s, flag) in I.truth_fork(st, on[0]):
        if isinstance(flag, Exc):
            out.append((s, flag))
            continue
        if flag:
            for (s1, snull) in I.branch(s, S.null):
                if not snull:
                    out.append((_swap(s1, self_), NONE))
                else:
                    for (s2, anull) in I.branch(s1, A.null):
                        if anull:
                            out.append((s2, Exc('ValueError', origin='no valid archive has been set')))
                        else:
                            out.append((s2, NONE))
        else:
            for (s1, anull) in I.branch(s, A.null):
                out.append((s1 if anull else _swap(s1, self_), NONE))
    return out


def _swap(st, self_):
    s = st.fork()
    obj = s.get(self_).clone()
    obj.attrs['__archive__'], obj.attrs['__swap__'] = obj.attrs['__swap__'], obj.attrs['__archive__']
    s.put(self_, obj)
    return s


def c_load(I, st, ca):
    """load(): mem' = mem (+) A.m ; load(k1..kn): mem' = mem (+) (A.m restricted to {ki}), absent ignored"""
    self_ = ca.pos[0]
    keys = ca.pos[1:]
    if not ca.plain() or ca.kw:
        raise Unsupported('cache.load with symbolic arguments')
    a_ref = _A(st, self_)
    if not keys:
        s = st.fork()
        A, mem = s.get(a_ref), s.get(self_)
        dom, val, size = overlay(I, s, mem, A.dom, A.val, A.size)
        s.put(self_, mem.clone(dom=dom, val=val, size=size))
        return [(s, NONE)]
    states = [(st, NONE)]
    for k in keys:
        nxt = []
        for (s, r) in states:
            if isinstance(r, Exc):
                nxt.append((s, r))
                continue
            A, mem = s.get(a_ref), s.get(self_)
            kt = I.to_val(k)
            for (s1, h) in I.branch(s, Hashable(kt), None, 'unhashable'):
                if not h:
                    # archive[k] / {k: ..} with an unhashable key: some exception (TypeError for
                    # dict-like stores, KeyError for the directory store, ...): class unknown
                    for (s2, iskey) in I.branch(s1, fresh('archive_unhashable_is_keyerror', BOOL)):
                        if iskey:
                            nxt.append((s2, NONE))
                        else:
                            # load() itself swallows KeyError, so what escapes is never a KeyError
                            e = Exc(None, origin='cache.load(unhashable)')
                            s2 = s2.fork()
                            s2.assume(z3.Not(ExcIsInst(e.term, EXC_IDS['KeyError'])))
                            nxt.append((s2, e))
                    continue
                for (s2, present) in I.branch(s1, A.dom[kt], 'arch-in', 'arch-notin'):
                    if present:
                        s3 = s2.fork()
                        s3.put(self_, mem.clone(dom=z3.Store(mem.dom, kt, True),
                                                val=z3.Store(mem.val, kt, A.val[kt]),
                                                size=mem.size + z3.If(mem.dom[kt], 0, 1)))
                        nxt.append((s3, NONE))
                    else:
                        nxt.append((s2, NONE))
        states = nxt
    return states


def c_dump(I, st, ca):
    """dump(): A.m' = A.null ? {} : A.m (+) mem ; dump(k..): only resident ki"""
    self_ = ca.pos[0]
    keys = ca.pos[1:]
    if not ca.plain() or ca.kw:
        raise Unsupported('cache.dump with symbolic arguments')
    a_ref = _A(st, self_)
    if not keys:
        out = []
        A = st.get(a_ref)
        for (s, isnull) in I.branch(st, A.null, 'null-arch', 'real-arch'):
            if isnull:
                out.append((s, NONE))
            else:
                for (s_ok, rejected) in models.archive_write_rejected(I, s, A, a_ref, s.get(self_)):
                    if rejected is not None:
                        out.append((s_ok, rejected))
                        continue
                    s1 = s_ok.fork()
                    mem = s1.get(self_)
                    dom, val, size = overlay(I, s1, A, mem.dom, mem.val, mem.size)
                    s1.put(a_ref, A.clone(dom=dom, val=val, size=size))
                    out.append((s1, NONE))
        return out
    states = [(st, NONE)]
    for k in keys:
        nxt = []
        for (s, r) in states:
            if isinstance(r, Exc):
                nxt.append((s, r))
                continue
            A, mem = s.get(a_ref), s.get(self_)
            kt = I.to_val(k)
            for (s1, h) in I.branch(s, Hashable(kt), None, 'unhashable'):
                if not h:
                    nxt.append((s1, Exc('TypeError', origin='cache.dump(unhashable)')))
                    continue
                for (s2, present) in I.branch(s1, mem.dom[kt], 'in', 'notin'):
                    if not present:
                        nxt.append((s2, NONE))
                        continue
                    for (s3, isnull) in I.branch(s2, A.null, 'null-arch', 'real-arch'):
                        if isnull:
                            nxt.append((s3, NONE))
                        else:
                            for (s_ok, rejected) in models.archive_write_rejected(I, s3, A, a_ref, None):
                                if rejected is not None:
                                    nxt.append((s_ok, rejected))
                                    continue
                                s4 = s_ok.fork()
                                s4.put(a_ref, A.clone(dom=z3.Store(A.dom, kt, True),
                                                      val=z3.Store(A.val, kt, mem.val[kt]),
                                                      size=A.size + z3.If(A.dom[kt], 0, 1)))
                                nxt.append((s4, NONE))
        states = nxt
    return states


def c_sync(I, st, ca):
    self_ = ca.pos[0]
    rest = ca.pos[1:]
    clear = ca.kw.get('clear', rest[0] if rest else BoolV(False))
    a_ref = _A(st, self_)
    out = []
    for (s, c) in I.truth_fork(st, clear):
        if isinstance(c, Exc):
            out.append((s, c))
            continue
        s = s.fork()
        if c:
            A = s.get(a_ref)
            s.put(a_ref, A.clone(dom=EMPTY_SET, size=z3.IntVal(0)))
        for (s1, r) in c_dump(I, s, CallArgs([self_])):
            if isinstance(r, Exc) or c:
                out.append((s1, r))
            else:
                out.extend(c_load(I, s1, CallArgs([self_])))
    return out


def c_get_archive(I, st, ca):
    """archive (property getter): the bound archive"""
    self_ = ca.pos[0]
    return [(st, _A(st, self_))]


def c_set_archive(I, st, ca):
    """archive = x : a parked real archive is swapped back in first, then A' = x"""
    self_, x = ca.pos
    S = st.get(_S(st, self_))
    out = []
    for (s, snull) in I.branch(st, S.null):
        s1 = s if snull else _swap(s, self_)
        s2 = s1.fork()
        obj = s2.get(self_).clone()
        obj.attrs['__archive__'] = x
        s2.put(self_, obj)
        out.append((s2, NONE))
    return out


def make_kcache_class(I):
    """the abstract class object used for `cache` in wrapper proofs"""
    dct = I.builtins['dict']
    ns = {
        'archived': FuncV('cache.archived', c_archived, 'method'),
        'load': FuncV('cache.load', c_load, 'method'),
        'dump': FuncV('cache.dump', c_dump, 'method'),
        'sync': FuncV('cache.sync', c_sync, 'method'),
        'archive': PropertyV(FuncV('cache.archive.get', c_get_archive), FuncV('cache.archive.set', c_set_archive)),
    }
    return ClassV('cache', node=None, bases=[dct], ns=ns, model=None, module='klepto._archives')


def new_cache(I, st, kcls, name='cache'):
    """allocate a symbolic cache object (mem, A, S) with its well-formedness facts"""
    A = ArchiveObj.symbolic(name + '_A', role='A')
    S = ArchiveObj.symbolic(name + '_S', role='S')
    a_ref, s_ref = st.alloc(A), st.alloc(S)
    mem = DictObj.symbolic(name + '_mem', 'Val', kcls, role='cache')
    mem.attrs = {'__archive__': a_ref, '__swap__': s_ref}
    ref = st.alloc(mem)
    st.assume(*A.facts())
    st.assume(*S.facts())
    st.assume(*mem.facts())
    return ref
