"""klepto._archives.cache (the in-memory front of an archive) under contract  [C08].

The real class body is read from /repo/klepto/_archives.py on every run and its methods are executed
symbolically from an arbitrary state (mem, A, S):

  mem : contents of the dict part of the cache object
  A   : the archive bound to __archive__   (null archive or a lossless dict-like store)
  S   : the archive parked in __swap__

Two families of obligations per method and path of the real body:

  refines/<method>   the outcome (post-state and result/exception) is one of the outcomes the contract in
                     contracts/kcache.py allows for the same pre-state.  kcache.py is what the wrapper proofs
                     (C01 C02 C05 C06 C07 C15 C16) use at call sites of cache.load/dump/archived/..., so this
                     is what makes those proofs modular instead of assuming the callee.
  C08 clauses        the sentences of property C08, as postconditions on the real body.

Assumed here (and decided elsewhere): an archive object meets the dict contract on its contents when it
is not a null archive and discards writes when it is (C03).
"""
import z3
from pyvc import intake
from pyvc.symex import (forall, Val, INT, BOOL, fresh, Hashable, NoneC, Opaque, IntV, BoolV, NONE, NoneV, StrV,
                        TupleV, Ref, FuncV, BoundV, ClosureV, MethodV, ClassV, PropertyV, Exc, CallArgs, Unsupported,
                        Obligation, State, exc_issub, ExcIsInst, EXC_IDS)
from pyvc.models import DictObj, ArchiveObj, EMPTY_SET
from pyvc.builtins import Engine, _nomodel
from . import kcache

DICT_MUTATORS = ['__setitem__', '__delitem__', 'pop', 'popitem', 'clear', 'update', 'setdefault', '__getitem__',
                 '__contains__', '__len__', '__iter__', 'get', 'keys', 'values', 'items']


def x_():
    return z3.Const('x!q', Val)


def map_eq(d1, d2):
    x = x_()
    return z3.And(forall([x], d1.dom[x] == d2.dom[x]),
                  forall([x], z3.Implies(d1.dom[x], d1.val[x] == d2.val[x])))


def overlay_is(res, base, top):
    """res = base (+) top   (top wins)"""
    x = x_()
    return z3.And(forall([x], res.dom[x] == z3.Or(base.dom[x], top.dom[x])),
                  forall([x], z3.Implies(res.dom[x], res.val[x] == z3.If(top.dom[x], top.val[x], base.val[x]))))


class Snap(object):
    def __init__(self, st, ref):
        self.mem = st.get(ref)
        self.a_ref = self.mem.attrs.get('__archive__')
        self.s_ref = self.mem.attrs.get('__swap__')
        self.A = st.get(self.a_ref) if isinstance(self.a_ref, Ref) else None
        self.S = st.get(self.s_ref) if isinstance(self.s_ref, Ref) else None
        self.ok = isinstance(self.A, ArchiveObj) and isinstance(self.S, ArchiveObj)


class CacheCase(object):
    def __init__(self):
        self.unsupported = None
        self.qual = '_archives:cache'
        try:
            self._setup()
        except Unsupported as e:
            self.unsupported = str(e)

    def _setup(self):
        I = self.I = Engine()
        tree, self.sha, _ = intake.load('_archives.py')
        dct = I.builtins['dict']
        self.abc = ClassV('archive', bases=[dct], model=_nomodel, module='klepto._abc')
        for k in (('._abc', 'archive'), ('klepto._abc', 'archive'), ('_abc', 'archive')):
            I.externals[k] = self.abc
        st = State()
        meid = I.load_module(st, 'klepto._archives', tree)
        self.module_unsupported = list(I.unsupported)
        cls = st.lookup(meid, 'cache')
        if not isinstance(cls, ClassV) or cls.node is None:
            raise Unsupported('class cache not found in _archives.py')
        self.cls = cls
        real_null = st.lookup(meid, 'null_archive')
        if not isinstance(real_null, ClassV):
            raise Unsupported('class null_archive not found in _archives.py')
        # inside the methods of `cache`, `null_archive` denotes the abstract null archive (its own methods
        # are C03's business): instantiation yields a fresh empty archive object with null = True
        self.nullcls = ClassV('null_archive', bases=[self.abc], model=self._m_null, module='klepto._archives')
        st.bind(meid, 'null_archive', self.nullcls)
        I.isinstance_hook = self._isinstance
        self.st0 = st
        self.meid = meid

    def _m_null(self, I, st, cls, ca, node):
        s = st.fork()
        a = ArchiveObj(z3.BoolVal(True), EMPTY_SET, z3.K(Val, NoneC), z3.IntVal(0), role='fresh-null')
        return [(s, s.alloc(a))]

    def _isinstance(self, I, st, o, classes):
        if isinstance(o, Ref) and isinstance(st.get(o), ArchiveObj):
            a = st.get(o)
            conds = []
            for k in classes:
                if k.name == 'null_archive':
                    conds.append(a.null)
                elif k.name in ('archive', 'dict', 'object'):
                    conds.append(z3.BoolVal(True))
                elif k.name in ('cache',):
                    conds.append(z3.BoolVal(False))
                else:
                    raise Unsupported('isinstance(<archive>, %s)' % k.name)
            return [(st, BoolV(z3.Or(*conds)))]
        return None

    def fresh(self):
        st = self.st0.fork()
        A = ArchiveObj.symbolic('A', role='A')
        S = ArchiveObj.symbolic('S', role='S')
        a_ref, s_ref = st.alloc(A), st.alloc(S)
        mem = DictObj.symbolic('mem', 'Val', self.cls, role='cache')
        mem.attrs = {'__archive__': a_ref, '__swap__': s_ref}
        ref = st.alloc(mem)
        st.assume(*(A.facts() + S.facts() + mem.facts()))
        return st, ref

    # -----------------------------------------------------------------------------------------
    def run_method(self, name, pos, kw=None):
        """-> (pre state, ref, [(state, result)] of the real body, [(state, result)] of the contract)"""
        I = self.I
        st, ref = self.fresh()
        I.cur_func = '%s.%s' % (self.qual, name)
        I.obligations = []
        real = I.call_method(st.fork(), ref, name, CallArgs(list(pos), dict(kw or {})))
        spec_fn = {'load': kcache.c_load, 'dump': kcache.c_dump, 'sync': kcache.c_sync, 'archived': kcache.c_archived}.get(name)
        spec = spec_fn(I, st.fork(), CallArgs([ref] + list(pos), dict(kw or {}))) if spec_fn else None
        return st, ref, real, spec


def _same_result(r, rj):
    """python-level match of results -> z3 Bool / bool"""
    if isinstance(r, Exc) != isinstance(rj, Exc):
        return False
    if isinstance(r, Exc):
        if rj.kind is None and r.kind is None:
            return r.origin == rj.origin       # both "the backend's exception" of the same source (terms are equated by the caller)
        if rj.kind is None:
            # the contract allows "some exception that is not a KeyError"
            return r.kind is not None and not exc_issub(r.kind, 'KeyError') and rj.origin != 'archive write rejected'
        return r.kind == rj.kind
    if isinstance(r, NoneV) and isinstance(rj, NoneV):
        return True
    if isinstance(r, BoolV) and isinstance(rj, BoolV):
        return r.term == rj.term
    return False


def _same_state(s, ref, sj):
    a, b = Snap(s, ref), Snap(sj, ref)
    if not (a.ok and b.ok):
        return z3.BoolVal(False)
    if a.a_ref != b.a_ref or a.s_ref != b.s_ref:
        return z3.BoolVal(False)
    return z3.And(map_eq(a.mem, b.mem), map_eq(a.A, b.A), map_eq(a.S, b.S), a.A.null == b.A.null, a.S.null == b.S.null)


def _consts(e, acc):
    todo = [e]
    seen = set()
    while todo:
        t = todo.pop()
        i = t.get_id()
        if i in seen:
            continue
        seen.add(i)
        if z3.is_quantifier(t):
            todo.append(t.body())
        elif z3.is_app(t):
            if t.num_args() == 0 and t.decl().kind() == z3.Z3_OP_UNINTERPRETED:
                acc[t.decl().name()] = t
            todo.extend(t.children())


def _new_consts(conj, pc):
    """uninterpreted constants of `conj` that do not occur in the path condition of the real run"""
    a, b = {}, {}
    _consts(conj, a)
    for p in pc:
        _consts(p, b)
    return [t for n, t in sorted(a.items()) if n not in b and '!' in n]


def obligations(case):
    I = case.I
    obs = []
    k1, k2 = Opaque(z3.Const('k1', Val)), Opaque(z3.Const('k2', Val))
    flag = BoolV(z3.Const('flag', BOOL))
    x = x_()

    def mk(fn, s, path, op):
        def ob(clause, goal, prop='C08'):
            if isinstance(goal, bool):
                goal = z3.BoolVal(goal)
            obs.append(Obligation('%s/%s' % (fn, clause), s.pc, goal, kind='clause', prop=prop, path=path, func=fn,
                                  info={'case': case.qual, 'op': op}))
        return ob

    def null_stays_empty(ob, post):
        for nm, a in (('A', post.A), ('S', post.S)):
            ob('null_archive_stays_empty[%s]' % nm, z3.Implies(a.null, forall([x], z3.Not(a.dom[x]))))

    calls = [('load()', 'load', [], {}), ('load(k)', 'load', [k1], {}), ('load(k1,k2)', 'load', [k1, k2], {}),
             ('dump()', 'dump', [], {}), ('dump(k)', 'dump', [k1], {}), ('dump(k1,k2)', 'dump', [k1, k2], {}),
             ('sync()', 'sync', [], {}), ('sync(clear=True)', 'sync', [], {'clear': BoolV(True)}),
             ('sync(flag)', 'sync', [flag], {}),
             ('archived()', 'archived', [], {}), ('archived(flag)', 'archived', [flag], {}),
             ('archived(a,b)', 'archived', [flag, flag], {})]
    for (label, meth, pos, kw) in calls:
        fn = '%s.%s' % (case.qual, label)
        st, ref, real, spec = case.run_method(meth, pos, kw)
        pre = Snap(st, ref)
        n0 = len(st.pc)
        for (s, r) in real:
            path = '/'.join(s.labels) or 'straight'
            ob = mk(fn, s, path, label)
            post = Snap(s, ref)
            if not post.ok:
                ob('slots_hold_archives', False)
                continue
            # ---- refinement of the contract used by the wrapper proofs
            disj = []
            for (sj, rj) in spec:
                m = _same_result(r, rj)
                if m is False:
                    continue
                delta = sj.pc[n0:]
                eqs = []
                if isinstance(r, Exc) and isinstance(rj, Exc) and rj.kind is None:
                    eqs.append(rj.term == r.term)      # "some exception": the one the real body raised
                conj = z3.And(*(delta + eqs + [_same_state(s, ref, sj)] + ([m] if not isinstance(m, bool) else [])))
                # what the contract run introduced (its choices: sizes of overlays, which exception an
                # unhashable key produces, ...) is existentially quantified: some allowed outcome matches
                newc = _new_consts(conj, s.pc)
                if newc:
                    conj = z3.Exists(newc, conj)
                disj.append(conj)
            kind_facts = []
            if isinstance(r, Exc) and r.kind is not None:
                # the class of an exception klepto's own code raised is known statically
                kind_facts = [ExcIsInst(r.term, EXC_IDS[n]) == z3.BoolVal(exc_issub(r.kind, n)) for n in sorted(EXC_IDS)]
            obs.append(Obligation('%s/refines_contract' % fn, list(s.pc) + kind_facts,
                                  z3.Or(*disj) if disj else z3.BoolVal(False), kind='clause', prop='C08', path=path,
                                  func=fn, info={'case': case.qual, 'op': label}))
            # ---- the sentences of C08
            normal = not isinstance(r, Exc)
            on = z3.Not(pre.A.null)
            samebind = (post.a_ref == pre.a_ref and post.s_ref == pre.s_ref)
            null_stays_empty(ob, post)
            if meth in ('load', 'dump', 'sync'):
                ob('binding_unchanged', samebind)
                ob('parked_archive_untouched', map_eq(pre.S, post.S))
            if meth == 'dump':
                ob('memory_unchanged', map_eq(pre.mem, post.mem))
                ob('archive_off_untouched', z3.Implies(pre.A.null, map_eq(pre.A, post.A)))
                if normal and not pos:
                    ob('dump_all.archive_is_archive_overlaid_by_cache', z3.Implies(on, overlay_is(post.A, pre.A, pre.mem)))
                if normal and pos:
                    ks = [k.term for k in pos]
                    sel = lambda t: z3.And(z3.Or(*[t == k for k in ks]), pre.mem.dom[t])
                    ob('dump_keys.only_given_resident_keys', z3.Implies(on, z3.And(
                        forall([x], post.A.dom[x] == z3.Or(pre.A.dom[x], sel(x))),
                        forall([x], z3.Implies(post.A.dom[x], post.A.val[x] == z3.If(sel(x), pre.mem.val[x], pre.A.val[x]))))))
                if not normal and r.origin == 'archive write rejected':
                    # the backend could not encode a value: the write raises; what was archived before is still there
                    ob('dump.rejected_write_keeps_archived_entries', z3.And(on, forall([x], z3.Implies(
                        pre.A.dom[x], z3.And(post.A.dom[x], z3.Or(post.A.val[x] == pre.A.val[x], z3.And(pre.mem.dom[x], post.A.val[x] == pre.mem.val[x])))))))
                elif not normal:
                    ob('dump.raises_only_for_unhashable_key', r.kind == 'TypeError' and bool(pos) and
                       z3.Or(*[z3.Not(Hashable(k.term)) for k in pos]))
            if meth == 'load':
                ob('archive_unchanged', map_eq(pre.A, post.A))
                if normal and not pos:
                    ob('load_all.cache_is_cache_overlaid_by_archive', overlay_is(post.mem, pre.mem, pre.A))
                if normal and pos:
                    ks = [k.term for k in pos]
                    sel = lambda t: z3.And(z3.Or(*[t == k for k in ks]), pre.A.dom[t])
                    ob('load_keys.only_given_archived_keys', z3.And(
                        forall([x], post.mem.dom[x] == z3.Or(pre.mem.dom[x], sel(x))),
                        forall([x], z3.Implies(post.mem.dom[x], post.mem.val[x] == z3.If(sel(x), pre.A.val[x], pre.mem.val[x])))))
                if not normal:
                    ob('load.raises_only_for_unhashable_key', r.kind == 'TypeError' and bool(pos) and
                       z3.Or(*[z3.Not(Hashable(k.term)) for k in pos]))
            if meth == 'sync':
                if normal:
                    clr = kw.get('clear', pos[0] if pos else BoolV(False)).term
                    ob('sync.archive_is_archive_overlaid_by_cache', z3.Implies(z3.And(on, z3.Not(clr)),
                                                                               overlay_is(post.A, pre.A, pre.mem)))
                    ob('sync.cache_equals_archive_afterwards', z3.Implies(z3.And(on, z3.Not(clr)), map_eq(post.mem, post.A)))
                    ob('sync_clear.archive_equals_cache', z3.Implies(z3.And(on, clr), map_eq(post.A, pre.mem)))
                    ob('sync_clear.cache_unchanged', z3.Implies(clr, map_eq(post.mem, pre.mem)))
                    ob('sync.off_changes_nothing', z3.Implies(pre.A.null, z3.And(map_eq(pre.mem, post.mem), map_eq(pre.A, post.A))))
                elif r.origin == 'archive write rejected':
                    ob('sync.rejected_write_leaves_cache', map_eq(pre.mem, post.mem))
                else:
                    ob('sync.never_raises', False)
            if meth == 'archived':
                ob('contents_untouched', z3.And(map_eq(pre.mem, post.mem)))
                if not pos:
                    ob('archived().reports_on', normal and isinstance(r, BoolV) and r.term == on)
                    ob('archived().changes_nothing', z3.And(samebind, map_eq(pre.A, post.A), map_eq(pre.S, post.S)))
                elif len(pos) == 1:
                    f = pos[0].term
                    swapped = (post.a_ref == pre.s_ref and post.s_ref == pre.a_ref)
                    # the two archive objects keep their contents whichever slot they are in
                    ob('archive_objects_keep_contents', z3.BoolVal(samebind or swapped))
                    want_swap = z3.Or(z3.And(f, z3.Not(pre.S.null)), z3.And(z3.Not(f), z3.Not(pre.A.null)))
                    if normal:
                        ob('toggle.swaps_exactly_when_needed', want_swap if swapped and not samebind else
                           (z3.Not(want_swap) if samebind else z3.BoolVal(False)))
                        ob('toggle_off.archive_is_off_afterwards', z3.Implies(z3.And(z3.Not(f), pre.S.null), post.A.null))
                        ob('toggle_on.parked_archive_is_back', z3.Implies(z3.And(f, z3.Not(pre.S.null)),
                                                                        z3.BoolVal(post.a_ref == pre.s_ref)))
                    else:
                        ob('toggle.raises_only_without_any_archive', z3.And(f, pre.S.null, pre.A.null) if r.kind == 'ValueError' else False)
                        ob('toggle.failure_changes_nothing', samebind)
                else:
                    ob('archived(a,b).raises_TypeError', (not normal) and r.kind == 'TypeError' and samebind)
        for o in I.obligations:
            o.prop = o.prop or 'C08'
            o.info = {'case': case.qual, 'op': label}
            obs.append(o)
        I.obligations = []
    # ---- open / drop / archive property
    N = ArchiveObj.symbolic('N', role='new')
    for (label, how) in (('open(x)', 'open'), ('drop()', 'drop'), ('archive = x', 'set'), ('archive', 'get')):
        fn = '%s.%s' % (case.qual, label)
        st, ref = case.fresh()
        pre = Snap(st, ref)
        n_ref = st.alloc(N)
        st.assume(*N.facts())
        I.cur_func = fn
        if how == 'open':
            res = I.call_method(st.fork(), ref, 'open', CallArgs([n_ref]))
        elif how == 'drop':
            res = I.call_method(st.fork(), ref, 'drop', CallArgs([]))
        elif how == 'set':
            res = I.setattr(st.fork(), ref, 'archive', n_ref)
        else:
            res = I.getattr(st.fork(), ref, 'archive')
        for (s, r) in res:
            path = '/'.join(s.labels) or 'straight'
            ob = mk(fn, s, path, label)
            post = Snap(s, ref)
            if not post.ok:
                ob('slots_hold_archives', False)
                continue
            normal = not isinstance(r, Exc)
            ob('contents_untouched', z3.And(map_eq(pre.mem, post.mem), map_eq(pre.A, st.get(pre.a_ref) if False else s.get(pre.a_ref)),
                                            map_eq(pre.S, s.get(pre.s_ref))))
            null_stays_empty(ob, post)
            if how == 'get':
                ob('returns_bound_archive', normal and r == pre.a_ref and post.a_ref == pre.a_ref and post.s_ref == pre.s_ref)
            if how in ('open', 'set'):
                ob('returns_normally', normal)
                if normal:
                    ob('binds_given_archive', post.a_ref == n_ref)
                    # a parked real archive is swapped back in first, so it is the previously bound archive that ends up parked
                    ob('parked_slot_holds_an_old_archive', post.s_ref in (pre.s_ref, pre.a_ref))
                    ob('parked_archive_kept_unless_swapped_in', z3.Implies(z3.And(pre.A.null, z3.Not(pre.S.null)),
                                                                           z3.BoolVal(post.s_ref == pre.a_ref)))
            if how == 'drop':
                if normal:
                    ob('archive_is_null_afterwards', z3.And(post.A.null))
                else:
                    ob('raises_only_without_any_archive', z3.And(pre.A.null, pre.S.null) if r.kind == 'ValueError' else False)
    # ---- plain dict operations on the cache never touch the archive: klepto overrides none of them
    fn = '%s.<dict protocol>' % case.qual
    own = set(case.cls.ns)
    for nm in DICT_MUTATORS:
        obs.append(Obligation('%s/inherited_from_dict[%s]' % (fn, nm), [], z3.BoolVal(nm not in own), prop='C08', func=fn,
                              path='class body', info={'case': case.qual, 'op': 'dict'}))
    return obs
