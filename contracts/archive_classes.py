"""Level-A part of C03 (and of C08's "archive used directly as the cache object"):

  * klepto._archives.file_archive -- the mapping protocol is glue of the form
        memo = self.__asdict__(); <dict operation on memo>; self.__save__(memo)
    The real glue (__getitem__ __setitem__ __delitem__ __contains__ __len__ get pop popitem setdefault update clear)
    is executed symbolically from an arbitrary stored content and proved to *refine the dict operation on the
    content*: same result or KeyError, same content afterwards, content unchanged on an exceptional exit.
    ASSUMED (trusted, exercised only by the bounded C03/C04/C13 checks): the contract of the two primitives
        __asdict__()   returns a fresh dict equal to the stored content, changes nothing
        __save__(m)    m is None: nothing; else the stored content becomes (a snapshot of) m, or -- when the encoder
                       rejects a value -- an exception (not OSError) is raised and the stored content is unchanged
  * klepto._archives.null_archive -- every overriding operation leaves it empty and returns what a dict that discards
    writes returns; klepto._archives.dict_archive.__asdict__ / copy.
  * klepto._abc.archive (an archive used directly as cache object): load, dump, sync change nothing; archived() is
    False; archived(x), open, drop, `archive = x` raise ValueError; archived(a, b) TypeError; `archive` is the object.
"""
import z3
from pyvc import intake
from pyvc.symex import (forall, Val, INT, BOOL, fresh, Hashable, NoneC, Opaque, IntV, BoolV, NONE, NoneV, StrV, TupleV, Ref,
                        FuncV, BoundV, ClosureV, ClassV, Exc, CallArgs, Unsupported, Obligation, State, exc_issub, ViewV)
from pyvc import models
from pyvc.models import DictObj, ConcDict, EMPTY_SET
from pyvc.builtins import Engine
from .cache_class import map_eq, _new_consts, x_


class ContractMisuse(Unsupported):
    """a caller uses an assumed primitive outside its contract: an obligation failure, not a limit of the translation"""


class ArchCase(object):
    def __init__(self):
        self.unsupported = None
        try:
            self._setup()
        except Unsupported as e:
            self.unsupported = str(e)

    def _setup(self):
        I = self.I = Engine()
        st = State()
        abc_tree, self.sha_abc, _ = intake.load('_abc.py')
        m0 = I.load_module(st, 'klepto._abc', abc_tree)
        self.abc = st.lookup(m0, 'archive')
        if not isinstance(self.abc, ClassV):
            raise Unsupported('class archive not found in _abc.py')
        for k in (('._abc', 'archive'), ('klepto._abc', 'archive'), ('_abc', 'archive')):
            I.externals[k] = self.abc
        tree, self.sha, _ = intake.load('_archives.py')
        meid = I.load_module(st, 'klepto._archives', tree)
        self.module_unsupported = list(I.unsupported)
        self.cls = {}
        for nm in ('file_archive', 'null_archive', 'dict_archive'):
            c = st.lookup(meid, nm)
            if not isinstance(c, ClassV) or c.node is None:
                raise Unsupported('class %s not found in _archives.py' % nm)
            self.cls[nm] = c
        da = st.lookup(meid, 'dir_archive')
        if not isinstance(da, ClassV) or da.node is None:
            raise Unsupported('class dir_archive not found in _archives.py')
        self.cls['dir_archive'] = da
        # dir_archive: the entry-level primitives are replaced by their assumed contract (one entry per key; the
        # key -> entry-name mapping is ASSUMED injective here -- it is not: C03's listed finding)
        for n in ('_lookup', '_store', '_rmdir', '__contains__', '_lsdir'):
            if not isinstance(da.ns.get(n), ClosureV):
                raise Unsupported('dir_archive.%s not found' % n)
        da.ns['_lookup'] = FuncV('dir_archive._lookup [assumed contract]', self._d_lookup, 'method')
        da.ns['_store'] = FuncV('dir_archive._store [assumed contract]', self._d_store, 'method')
        da.ns['_rmdir'] = FuncV('dir_archive._rmdir [assumed contract]', self._d_rmdir, 'method')
        da.ns['__contains__'] = FuncV('dir_archive.__contains__ [assumed contract]', self._d_contains, 'method')
        da.ns['_lsdir'] = FuncV('dir_archive._lsdir [assumed contract]', self._d_lsdir, 'method')
        self.st0 = st
        # the two primitives of file_archive are replaced by their assumed contract
        fa = self.cls['file_archive']
        self.real_prims = {n: fa.ns.get(n) for n in ('__asdict__', '__save__')}
        if not all(isinstance(v, ClosureV) for v in self.real_prims.values()):
            raise Unsupported('file_archive.__asdict__/__save__ not found')
        fa.ns['__asdict__'] = FuncV('file_archive.__asdict__ [assumed contract]', self._c_asdict, 'method')
        fa.ns['__save__'] = FuncV('file_archive.__save__ [assumed contract]', self._c_save, 'method')

    # ---- assumed contract of the primitives ---------------------------------------------------------------
    def _c_asdict(self, I, st, ca):
        self_ = ca.pos[0]
        c = st.ghost[('content', self_.oid)]
        s = st.fork()
        return [(s, s.alloc(DictObj(c.dom, c.val, c.size, 'Val', None, {}, None)))]

    def _c_save(self, I, st, ca):
        self_ = ca.pos[0]
        if len(ca.pos) > 2 or set(ca.kw) - {'memo'} or not ca.plain():
            # the contract is that of  __save__(memo): a caller that passes anything else is outside it
            raise ContractMisuse('__save__ called with %r: outside the contract of __save__(memo)' % (ca,))
        memo = ca.pos[1] if len(ca.pos) > 1 else ca.kw.get('memo', NONE)
        if isinstance(memo, NoneV):
            return [(st, NONE)]
        if not isinstance(memo, Ref):
            raise Unsupported('__save__(%r)' % (memo,))
        m = st.get(memo)
        if isinstance(m, ConcDict) and not m.items:
            m = DictObj.empty('Val')
        if not isinstance(m, DictObj):
            raise Unsupported('__save__ of a non-dict')
        out = []
        ok = fresh('encodes', BOOL)
        for (s, good) in I.branch(st, ok, 'encodes', 'encoder-rejects'):
            if good:
                s2 = s.fork()
                s2.ghost = dict(s2.ghost)
                s2.ghost[('content', self_.oid)] = DictObj(m.dom, m.val, m.size, 'Val', None, {}, None)
                out.append((s2, NONE))
            else:
                out.append((s, Exc(None, origin='encoder rejects a value')))
        return out

    # ---- assumed contract of the dir_archive primitives ------------------------------------------------------
    def _content(self, st, self_):
        return st.ghost[('content', self_.oid)]

    def _d_lookup(self, I, st, ca):
        self_, key = ca.pos[0], ca.pos[1]
        if len(ca.pos) > 2 or ca.kw:
            raise Unsupported('_lookup(key, input=...) is not part of the glue under contract')
        c = self._content(st, self_)
        kt = I.to_val(key)
        out = []
        for (s, present) in I.branch(st, c.dom[kt], 'entry-in', 'entry-notin'):
            out.append((s, Opaque(c.val[kt]) if present else Exc('KeyError', payload=(key,), origin='dir_archive._lookup')))
        return out

    def _d_store(self, I, st, ca):
        self_, key, value = ca.pos[0], ca.pos[1], ca.pos[2]
        c = self._content(st, self_)
        kt, vt = I.to_val(key), I.to_val(value)
        out = []
        for (s, good) in I.branch(st, fresh('encodes', BOOL), 'encodes', 'encoder-rejects'):
            if good:
                s2 = s.fork()
                s2.ghost = dict(s2.ghost)
                s2.ghost[('content', self_.oid)] = DictObj(z3.Store(c.dom, kt, True), z3.Store(c.val, kt, vt),
                                                           c.size + z3.If(c.dom[kt], 0, 1), 'Val', None, {}, None)
                out.append((s2, NONE))
            else:
                out.append((s, Exc(None, origin='encoder rejects a value')))
        return out

    def _d_rmdir(self, I, st, ca):
        self_, key = ca.pos[0], ca.pos[1]
        c = self._content(st, self_)
        kt = I.to_val(key)
        s2 = st.fork()
        s2.ghost = dict(s2.ghost)
        s2.ghost[('content', self_.oid)] = DictObj(z3.Store(c.dom, kt, False), c.val, c.size - z3.If(c.dom[kt], 1, 0), 'Val', None, {}, None)
        return [(s2, NONE)]

    def _d_contains(self, I, st, ca):
        self_, key = ca.pos[0], ca.pos[1]
        c = self._content(st, self_)
        return [(st, BoolV(c.dom[I.to_val(key)]))]

    def _d_lsdir(self, I, st, ca):
        from pyvc.symex import SeqV
        c = self._content(st, ca.pos[0])
        return [(st, SeqV(c.size, lambda j: Opaque(fresh('entry', Val)), 'lsdir'))]

    def fresh_dir(self):
        st = self.st0.fork()
        c = DictObj.symbolic('entries', 'Val')
        st.assume(*c.facts())
        inst = DictObj.empty('Val', cls=self.cls['dir_archive'])
        state = st.alloc(ConcDict({'id': StrV('store'), 'serialized': BoolV(True), 'protocol': NONE, 'fast': BoolV(False)}))
        inst.attrs = {'__state__': state}
        ref = st.alloc(inst)
        st.ghost = dict(st.ghost)
        st.ghost[('content', ref.oid)] = c
        return st, ref, c

    def fresh_file(self):
        st = self.st0.fork()
        c = DictObj.symbolic('content', 'Val')
        st.assume(*c.facts())
        inst = DictObj.empty('Val', cls=self.cls['file_archive'])
        state = st.alloc(ConcDict({'id': StrV('store.pkl'), 'serialized': BoolV(True), 'protocol': NONE}))
        inst.attrs = {'__state__': state}
        ref = st.alloc(inst)
        st.ghost = dict(st.ghost)
        st.ghost[('content', ref.oid)] = c
        return st, ref, c


def _same_res(r, rj):
    if isinstance(r, Exc) != isinstance(rj, Exc):
        return False
    if isinstance(r, Exc):
        return r.kind == rj.kind and r.kind is not None
    if isinstance(r, NoneV) and isinstance(rj, NoneV):
        return True
    if isinstance(r, BoolV) and isinstance(rj, BoolV):
        return r.term == rj.term
    if isinstance(r, IntV) and isinstance(rj, IntV):
        return r.term == rj.term
    if isinstance(r, Opaque) and isinstance(rj, Opaque):
        return r.term == rj.term
    if isinstance(r, NoneV) and isinstance(rj, Opaque):
        return rj.term == NoneC
    if isinstance(r, Opaque) and isinstance(rj, NoneV):
        return r.term == NoneC
    if isinstance(r, TupleV) and isinstance(rj, TupleV) and len(r.items) == len(rj.items):
        parts = [_same_res(a, b) for a, b in zip(r.items, rj.items)]
        if any(p is False for p in parts):
            return False
        parts = [p for p in parts if p is not True]
        return z3.And(*parts) if parts else True
    return False


def obligations(case):
    I = case.I
    obs = []
    k = Opaque(z3.Const('k', Val))
    v = Opaque(z3.Const('v', Val))
    d = Opaque(z3.Const('dflt', Val))
    x = x_()

    # ---------------- file_archive: the glue refines the dict operation on the stored content -----------------
    calls = [('__getitem__(k)', '__getitem__', [k]), ('__setitem__(k,v)', '__setitem__', [k, v]), ('__delitem__(k)', '__delitem__', [k]),
             ('__contains__(k)', '__contains__', [k]), ('__len__()', '__len__', []), ('get(k)', 'get', [k]), ('get(k,d)', 'get', [k, d]),
             ('pop(k)', 'pop', [k]), ('pop(k,d)', 'pop', [k, d]), ('popitem()', 'popitem', []), ('setdefault(k)', 'setdefault', [k]),
             ('setdefault(k,d)', 'setdefault', [k, d]), ('clear()', 'clear', []), ('update(D)', 'update', ['D'])]
    dcalls = [c for c in calls if c[1] not in ('popitem', 'clear', 'update', '__contains__')]
    for (fam, label, meth, args) in [('file_archive',) + c for c in calls] + [('dir_archive',) + c for c in dcalls]:
        fn = '_archives:%s.%s' % (fam, label)
        st, ref, c0 = case.fresh_file() if fam == 'file_archive' else case.fresh_dir()
        pos = []
        for a in args:
            if a == 'D':
                D = DictObj.symbolic('D', 'Val')
                st.assume(*D.facts())
                pos.append(st.alloc(D))
            else:
                pos.append(a)
        if fam == 'dir_archive':
            # keys produced by klepto's keymaps are hashable; the directory backend itself would take any object
            st.assume(Hashable(k.term))
        n0 = len(st.pc)
        I.cur_func = fn
        I.obligations = []
        try:
            real = I.call_method(st.fork(), ref, meth, CallArgs(list(pos)))
        except ContractMisuse as e:
            obs.append(Obligation(fn + '/uses_primitives_within_their_contract', [], z3.BoolVal(False), prop='C03', func=fn, path=str(e)[:200],
                                  info={'case': fam, 'op': label}))
            continue
        except Unsupported as e:
            obs.append(Obligation(fn + '/supported', [], z3.BoolVal(False), prop='C03', func=fn, path=str(e)[:200],
                                  info={'case': fam, 'op': label, 'unsupported': str(e)}))
            continue
        # the specification: the same operation of the dict contract on a dict holding the stored content
        sst = st.fork()
        model_ref = sst.alloc(DictObj(c0.dom, c0.val, c0.size, 'Val', None, {}, None))
        spec = models.dict_method(I, sst, model_ref, meth, CallArgs(list(pos)), None)
        for (s, r) in real:
            path = '/'.join(s.labels) or 'straight'
            post = s.ghost[('content', ref.oid)]
            rejected = 'encoder-rejects' in s.labels
            if rejected:
                # a value the backend cannot encode: the operation fails and the stored content is unchanged
                obs.append(Obligation(fn + '/failed_store_changes_nothing', s.pc,
                                      z3.And(z3.BoolVal(isinstance(r, Exc)), map_eq(c0, post)), prop='C03', func=fn, path=path,
                                      info={'case': fam, 'op': label}))
                continue
            disj = []
            for (sj, rj) in spec:
                m = _same_res(r, rj)
                if m is False:
                    continue
                pj = sj.get(model_ref)
                conj = z3.And(*(sj.pc[n0:] + [map_eq(post, pj)] + ([m] if not isinstance(m, bool) else [])))
                newc = _new_consts(conj, s.pc)
                if newc:
                    conj = z3.Exists(newc, conj)
                disj.append(conj)
            obs.append(Obligation(fn + '/refines_dict', s.pc, z3.Or(*disj) if disj else z3.BoolVal(False), prop='C03', func=fn, path=path,
                                  info={'case': fam, 'op': label}))
            if isinstance(r, Exc):
                obs.append(Obligation(fn + '/exception_leaves_contents', s.pc, map_eq(c0, post), prop='C03', func=fn, path=path,
                                      info={'case': fam, 'op': label}))
            # frame: no method assigns an instance attribute (all contents live in the store: C04)
            inst0, inst1 = st.get(ref), s.get(ref)
            obs.append(Obligation(fn + '/no_handle_local_state', [], z3.BoolVal(inst0.attrs == inst1.attrs and inst1.dom.eq(EMPTY_SET)),
                                  prop='C03', func=fn, path=path, info={'case': fam, 'op': label}))
    # ---------------- null_archive ----------------------------------------------------------------------------
    nul = case.cls['null_archive']
    for (label, meth, args, want) in [('__setitem__(k,v)', '__setitem__', [k, v], 'none'), ('update(D)', 'update', ['D'], 'none'),
                                      ('setdefault(k)', 'setdefault', [k], 'none'), ('setdefault(k,d)', 'setdefault', [k, d], 'dflt'),
                                      ('__asdict__()', '__asdict__', [], 'emptydict')]:
        fn = '_archives:null_archive.%s' % label
        st = case.st0.fork()
        I.cur_func = fn
        try:
            res = I.call(st, nul, CallArgs([]))
            if len(res) != 1 or isinstance(res[0][1], Exc):
                raise Unsupported('null_archive() forks or raises')
            st, ref = res[0]
            pos = []
            for a in args:
                if a == 'D':
                    D = DictObj.symbolic('D', 'Val')
                    st.assume(*D.facts())
                    pos.append(st.alloc(D))
                else:
                    pos.append(a)
            out = I.call_method(st.fork(), ref, meth, CallArgs(pos))
        except Unsupported as e:
            obs.append(Obligation(fn + '/supported', [], z3.BoolVal(False), prop='C03', func=fn, path=str(e)[:200],
                                  info={'case': 'null_archive', 'op': label, 'unsupported': str(e)}))
            continue
        for (s, r) in out:
            path = '/'.join(s.labels) or 'straight'
            o = s.get(ref)
            obs.append(Obligation(fn + '/stays_empty', s.pc, z3.And(o.size == 0, forall([x], z3.Not(o.dom[x]))), prop='C03', func=fn, path=path,
                                  info={'case': 'null_archive', 'op': label}))
            if want == 'none':
                good = isinstance(r, NoneV)
            elif want == 'dflt':
                good = (r.term == d.term) if isinstance(r, Opaque) else False
            else:
                good = False
                if isinstance(r, Ref):
                    ro = s.get(r)
                    good = isinstance(ro, ConcDict) and not ro.items or (isinstance(ro, DictObj) and z3.is_true(z3.simplify(ro.size == 0)))
            if meth in ('__setitem__', 'update', 'setdefault') and isinstance(r, Exc) and r.kind == 'TypeError':
                good = True      # unhashable key in get(): what a dict does
            obs.append(Obligation(fn + '/result', s.pc, good if not isinstance(good, bool) else z3.BoolVal(good), prop='C03', func=fn, path=path,
                                  info={'case': 'null_archive', 'op': label}))
    # ---------------- _abc.archive used directly as a cache object (through dict_archive) ----------------------
    da = case.cls['dict_archive']
    fn0 = '_abc:archive'
    st = case.st0.fork()
    try:
        res = I.call(st, da, CallArgs([]))
        if len(res) != 1 or isinstance(res[0][1], Exc):
            raise Unsupported('dict_archive() forks or raises')
        st, ref = res[0]
        c = DictObj.symbolic('dcontent', 'Val', da)
        c.attrs = dict(st.get(ref).attrs)
        st.put(ref, c)
        st.assume(*c.facts())
        flag = BoolV(z3.Const('flag', BOOL))
        probes = [('load()', 'load', [], 'none'), ('load(k)', 'load', [k], 'none'), ('dump()', 'dump', [], 'none'), ('dump(k)', 'dump', [k], 'none'),
                  ('sync()', 'sync', [], 'none'), ('archived()', 'archived', [], 'false'), ('archived(flag)', 'archived', [flag], 'ValueError'),
                  ('archived(a,b)', 'archived', [flag, flag], 'TypeError'), ('open(x)', 'open', [ref], 'ValueError'), ('drop()', 'drop', [], 'ValueError')]
        for (label, meth, args, want) in probes:
            fn = '%s.%s' % (fn0, label)
            I.cur_func = fn
            for (s, r) in I.call_method(st.fork(), ref, meth, CallArgs(list(args))):
                path = '/'.join(s.labels) or 'straight'
                o = s.get(ref)
                obs.append(Obligation(fn + '/changes_nothing', s.pc, z3.And(map_eq(c, o), z3.BoolVal(o.attrs == c.attrs)), prop='C08', func=fn, path=path,
                                      info={'case': 'abc.archive', 'op': label}))
                if want == 'none':
                    good = isinstance(r, NoneV)
                elif want == 'false':
                    good = isinstance(r, BoolV) and z3.is_false(z3.simplify(r.term))
                else:
                    good = isinstance(r, Exc) and r.kind == want
                obs.append(Obligation(fn + '/result', s.pc, z3.BoolVal(bool(good)), prop='C08', func=fn, path=path,
                                      info={'case': 'abc.archive', 'op': label}))
        # dict_archive.__asdict__: a fresh dict equal to the contents
        fn = '_archives:dict_archive.__asdict__()'
        I.cur_func = fn
        for (s, r) in I.call_method(st.fork(), ref, '__asdict__', CallArgs([])):
            good = z3.BoolVal(False)
            if isinstance(r, Ref) and r != ref and isinstance(s.get(r), DictObj):
                good = map_eq(c, s.get(r))
            obs.append(Obligation(fn + '/fresh_equal_dict', s.pc, good, prop='C03', func=fn, path='/'.join(s.labels) or 'straight',
                                  info={'case': 'dict_archive', 'op': '__asdict__'}))
    except Unsupported as e:
        obs.append(Obligation(fn0 + '/supported', [], z3.BoolVal(False), prop='C08', func=fn0, path=str(e)[:200],
                              info={'case': 'abc.archive', 'op': 'setup', 'unsupported': str(e)}))
    return obs
