"""Loop invariants (sidecar contracts) for the eviction loops of lfu_cache and lru_cache.

Keyed by (function qualname, loop ordinal in source order) -- never by line number or by the
names of local variables (the loop variable of the LRU loop is read off the loop test's AST).
The invariants talk about the abstract bookkeeping (which keys have been removed so far, the
remaining queue window), not about incidental temporaries.
"""
import ast
import z3
from pyvc.symex import (forall, Val, INT, BOOL, fresh, Hashable, Opaque, IntV, Ref, LoopSpec, Unsupported)
from pyvc.models import DictObj, DequeObj, ArchiveObj


def x_():
    return z3.Const('x!q', Val)


def j_():
    return z3.Const('j!q', INT)


def _wf(nm, obj):
    return [('wf[%s].%d' % (nm, k), f) for k, f in enumerate(obj.facts())]


def make_loopspecs(case):
    """sidecar loop contracts of one decorator class.  They are attached by the *shape* of the loop
    (kind of statement), not by ordinal or line: LRU's eviction loop is its only `while`, the
    compaction loop its only `for`; LFU has one `for`, MRU one `while`.  A second loop of the same
    shape in the same function makes the association ambiguous -> unsupported (undecided)."""
    fq = '%s.wrapper' % case.qual
    table = {}
    if case.policy == 'lfu':
        table['For'] = LoopSpec(lambda ctx: lfu_invariant(case, ctx), lambda I, h, entry: lfu_havoc(case, I, h, entry),
                                'lfu-eviction')
    if case.policy == 'lru':
        table['While'] = LoopSpec(lambda ctx: lru_invariant(case, ctx), lambda I, h, entry: lru_havoc(case, I, h, entry),
                                  'lru-eviction')
        table['For'] = LoopSpec(lambda ctx: compact_invariant(case, ctx),
                                lambda I, h, entry: compact_havoc(case, I, h, entry), 'lru-compaction')
    if case.policy == 'mru':
        table['While'] = LoopSpec(lambda ctx: mru_invariant(case, ctx), lambda I, h, entry: mru_havoc(case, I, h, entry),
                                  'mru-eviction')
    seen = {}

    def resolver(funcqual, node):
        if funcqual != fq:
            return None
        kind = node.__class__.__name__
        spec = table.get(kind)
        if spec is None:
            return None
        prev = seen.setdefault(kind, node)
        if prev is not node and getattr(prev, 'lineno', None) != getattr(node, 'lineno', None):
            raise Unsupported('two %s loops in %s: loop contract %r is ambiguous' % (kind, fq, spec.name), node)
        return spec
    case.I.loopspec_resolver = resolver
    return {}


# ---------------------------------------------------------------------------------------------
# MRU:  k = key
#       while queue: _k = pop(); if _k in cache: k = _k; break
# invariant at the loop head: only the right end of the queue has been consumed, every key
# popped so far is not resident, and no local that was bound before the loop has changed.
# ---------------------------------------------------------------------------------------------
def mru_havoc(case, I, h, entry):
    q = DequeObj.symbolic('Mq', 'queue')
    h.put(case.queue_ref, q)
    h.assume(*q.facts())


def locals_unchanged(ctx):
    """every local that the loop assigns and that was bound at loop entry still has its entry value
    at the loop head (assignments in the body are followed by a break)"""
    I = ctx.I
    conj = []
    for nm in sorted(I._assigned_names(ctx.node)):
        v0 = ctx.entry.envs[ctx.eid].get(nm)
        v1 = ctx.st.envs[ctx.eid].get(nm)
        if v0 is None:
            continue
        if v1 is None:
            conj.append(z3.BoolVal(False))
        elif isinstance(v0, Opaque) and isinstance(v1, Opaque):
            conj.append(v0.term == v1.term)
        elif isinstance(v0, IntV) and isinstance(v1, IntV):
            conj.append(v0.term == v1.term)
        elif v0 is v1:
            continue
        else:
            conj.append(z3.BoolVal(False))
    return z3.And(*conj) if conj else z3.BoolVal(True)


def mru_invariant(case, ctx):
    q0 = ctx.entry.get(case.queue_ref)
    q = ctx.st.get(case.queue_ref)
    mem = ctx.st.get(case.cache_ref)
    x = x_()
    j = j_()
    return [('locals', locals_unchanged(ctx)),
            ('queue.array', z3.And(q.lo == q0.lo, q.lo <= q.hi, q.hi <= q0.hi,
                                   forall([j], z3.Implies(z3.And(q.lo <= j, j < q.hi), q.arr[j] == q0.arr[j]),
                                          patterns=[q.arr[j]]))),
            ('queue.hashable', forall([x], z3.Implies(q.cnt[x] >= 1, Hashable(x)), patterns=[q.cnt[x]])),
            # every entry popped so far was stale: not resident, or the key of this very call
            # (which the loop skips: it is the fallback victim, not a candidate)
            ('popped.not_resident', forall([j], z3.Implies(z3.And(q.hi <= j, j < q0.hi),
                                                           z3.Or(q0.arr[j] == _call_key(case),
                                                                 z3.Not(mem.dom[q0.arr[j]]))),
                                           patterns=[q0.arr[j]])),
            ]


def _call_key(case):
    ex = case.extra.get('call')
    if ex is None:
        raise Unsupported('MRU eviction loop reached outside a wrapper call')
    return case.key_terms(ex['a0'], ex['k0'])[0]


# ---------------------------------------------------------------------------------------------
# LFU:  for k, _ in nsmallest(n, use_count.items(), key=count): dump k if archived; del cache[k];
#       use_count.pop(k)
# invariant at index i: exactly the victims W[0..i) have been removed from mem and use_count,
# and (when archiving is on) written to the archive with the value they had in mem.
# ---------------------------------------------------------------------------------------------
def _roles(case, st):
    mem = st.get(case.cache_ref)
    a_ref = mem.attrs['__archive__']
    return mem, a_ref, st.get(a_ref)


def lfu_havoc(case, I, h, entry):
    mem0, a_ref, A0 = _roles(case, entry)
    mem = DictObj.symbolic('Lmem', 'Val', mem0.cls, role='cache')
    mem.attrs = dict(mem0.attrs)
    h.put(case.cache_ref, mem)
    A = ArchiveObj.symbolic('LA', role='A')
    A.null = A0.null
    h.put(a_ref, A)
    U0 = entry.get(case.counter_ref)
    U = DictObj.symbolic('LU', 'Int', U0.cls, role='counter')
    h.put(case.counter_ref, U)
    h.assume(*(mem.facts() + A.facts() + U.facts()))


def lfu_invariant(case, ctx):
    seq = ctx.seq
    if seq is None or seq.tag != 'nsmallest':
        raise Unsupported('lfu eviction loop does not iterate over nsmallest(...)')
    i = ctx.idx
    wk, widx, m = seq.info['wk'], seq.info['widx'], seq.info['m']
    mem0, a_ref, A0 = _roles(case, ctx.entry)
    mem, a_ref1, A = _roles(case, ctx.st)
    U0 = ctx.entry.get(case.counter_ref)
    U = ctx.st.get(case.counter_ref)
    x = x_()
    gone = lambda t: z3.And(0 <= widx[t], widx[t] < i, wk[widx[t]] == t)
    on = z3.Not(A0.null)
    out = [('binding', z3.BoolVal(a_ref1 == a_ref and mem.attrs == mem0.attrs)),
           ('range', z3.And(0 <= i, i <= m)),
           ('mem.dom', forall([x], mem.dom[x] == z3.And(mem0.dom[x], z3.Not(gone(x))), patterns=[mem.dom[x]])),
           ('mem.val', forall([x], z3.Implies(mem.dom[x], mem.val[x] == mem0.val[x]), patterns=[mem.val[x]])),
           ('mem.size', mem.size == mem0.size - i),
           ('use_count.dom', forall([x], U.dom[x] == z3.And(U0.dom[x], z3.Not(gone(x))), patterns=[U.dom[x]])),
           ('use_count.val', forall([x], z3.Implies(U.dom[x], U.val[x] == U0.val[x]), patterns=[U.val[x]])),
           ('use_count.size', U.size == U0.size - i),
           ('archive.kind', A.null == A0.null),
           ('archive.dom', forall([x], A.dom[x] == z3.Or(A0.dom[x], z3.And(on, gone(x), mem0.dom[x])),
                                  patterns=[A.dom[x]])),
           ('archive.val', forall([x], z3.Implies(A.dom[x], A.val[x] == z3.If(z3.And(on, gone(x), mem0.dom[x]),
                                                                                 mem0.val[x], A0.val[x])),
                                  patterns=[A.val[x]])),
           ('archive.size', z3.And(A.size >= A0.size, z3.Implies(A0.null, A.size == 0)))]
    return out


# ---------------------------------------------------------------------------------------------
# LRU:  key = popleft(); refcount[key] -= 1
#       while refcount[key]: key = popleft(); refcount[key] -= 1
# invariant at the loop head: refcount still equals the occurrence count of the remaining
# window; nothing but the queue window and refcount changed; the last popped key is resident.
# ---------------------------------------------------------------------------------------------
def _loop_var(node):
    t = node.test
    if isinstance(t, ast.Subscript) and isinstance(t.slice, ast.Name):
        return t.slice.id
    raise Unsupported('LRU eviction loop test is not `while <refcount>[<key>]`')


def lru_havoc(case, I, h, entry):
    q = DequeObj.symbolic('Lq', 'queue')
    h.put(case.queue_ref, q)
    R0 = entry.get(case.counter_ref)
    R = DictObj.symbolic('LR', 'Int', R0.cls, role='counter')
    h.put(case.counter_ref, R)
    h.assume(*(q.facts() + R.facts()))


def lru_invariant(case, ctx):
    """stated relative to the queue Q0 of the wrapper's pre-state: the loop works on QA = Q0 ++ [key0]
    (the use of the current key has just been recorded) and has popped QA[Q0.lo .. q.lo) from the left"""
    pre = ctx.fnpre          # Snap at function entry
    Q0 = pre.q
    q = ctx.st.get(case.queue_ref)
    R = ctx.st.get(case.counter_ref)
    mem = ctx.st.get(case.cache_ref)
    var = _loop_var(ctx.node)
    kv = ctx.st.lookup(ctx.eid, var)
    if not isinstance(kv, Opaque):
        raise Unsupported('LRU loop variable %s is %r' % (var, kv))
    key = kv.term            # the entry popped most recently (candidate victim)
    key0 = _call_key(case)   # the key of this call
    x = x_()
    j = j_()
    rv = z3.If(R.dom[x], R.val[x], 0)
    qa = lambda t: z3.If(t == Q0.hi, key0, Q0.arr[t])
    out = [('queue.array', z3.And(q.hi == Q0.hi + 1, Q0.lo <= q.lo - 1, q.lo <= q.hi,
                                  forall([j], z3.Implies(z3.And(q.lo <= j, j < q.hi), q.arr[j] == qa(j)),
                                         patterns=[q.arr[j]]))),
           ('queue.last', forall([x], z3.Implies(q.cnt[x] >= 1, q.last[x] == z3.If(x == key0, Q0.hi, Q0.last[x])),
                                 patterns=[q.cnt[x]])),
           ('refcount', forall([x], rv == q.cnt[x], patterns=[q.cnt[x]])),
           ('resident', forall([x], z3.Implies(q.cnt[x] >= 1, mem.dom[x]), patterns=[q.cnt[x]])),
           ('victim.resident_or_absent', z3.And(Hashable(key))),
           ('victim.was_queued', qa(q.lo - 1) == key),
           # C06 lemmas, phrased over keys (trigger: Q0.cnt[y]) so that the exit reasoning is one
           # instantiation each.  p = q.lo - 1 is the position popped most recently.
           # (L1) if no occurrence of the candidate remains, the popped one was its last occurrence
           ('victim.last', z3.Or(key == key0, q.cnt[key] >= 1, Q0.last[key] == q.lo - 1)),
           # (L2) everything popped before p was not a last occurrence: every queued key still has its
           #      most recent use at or after p
           ('older', forall([x], z3.Implies(z3.And(Q0.cnt[x] >= 1, x != key0), Q0.last[x] >= q.lo - 1),
                            patterns=[Q0.cnt[x]])),
           # (L3) the use just recorded for the current call is still queued unless it is the candidate
           ('current.queued', z3.Implies(q.lo - 1 < Q0.hi, q.cnt[key0] >= 1)),
           # (L4) a key whose most recent use lies in the remaining window is still counted
           ('remaining.counted', forall([x], z3.Implies(z3.And(Q0.cnt[x] >= 1, x != key0, Q0.last[x] >= q.lo),
                                                        q.cnt[x] >= 1), patterns=[Q0.cnt[x]])),
           ]
    se = case.sentinel_term()
    if se is not None:
        out.append(('sentinel', q.cnt[se] == 0))
    return out


# ---------------------------------------------------------------------------------------------
# LRU queue compaction:
#   refcount.clear(); appendleft(sentinel)
#   for key in filterfalse(refcount.__contains__, iter(queue_pop, sentinel)):
#       appendleft(key); refcount[key] = 1
# the window is  [new part | sentinel | not yet processed old part]; the new part holds each
# processed key once (at its first-occurrence slot), refcount marks exactly the new part.
# ---------------------------------------------------------------------------------------------
def compact_havoc(case, I, h, entry):
    lru_havoc(case, I, h, entry)


def compact_invariant(case, ctx):
    q0 = ctx.entry.get(case.queue_ref)
    q = ctx.st.get(case.queue_ref)
    R = ctx.st.get(case.counter_ref)
    mem = ctx.st.get(case.cache_ref)
    se = case.sentinel_term()
    if se is None:
        raise Unsupported('no sentinel object found for the compaction loop')
    x = x_()
    j = j_()
    j2 = z3.Const('j2!q', INT)
    s = q0.lo            # slot of the sentinel
    Q0 = ctx.fnpre.q
    key0 = _call_key(case)
    rank = lambda t: z3.If(t == key0, Q0.hi, Q0.last[t])
    out = [('window', z3.And(q.lo <= s, s < q.hi, q.hi <= q0.hi, q.arr[s] == se)),
           ('old.part', forall([j], z3.Implies(z3.And(s < j, j < q.hi),
                                               z3.And(q.arr[j] == q0.arr[j], q.arr[j] != se, mem.dom[q.arr[j]])),
                               patterns=[q.arr[j]])),
           ('new.part', forall([j], z3.Implies(z3.And(q.lo <= j, j < s),
                                               z3.And(R.dom[q.arr[j]], q.first[q.arr[j]] == j, q.arr[j] != se,
                                                      mem.dom[q.arr[j]])),
                               patterns=[q.arr[j]])),
           ('refcount', forall([x], z3.Implies(R.dom[x], z3.And(q.lo <= q.first[x], q.first[x] < s,
                                                                q.arr[q.first[x]] == x, R.val[x] == 1,
                                                                q.cnt[x] >= 1)),
                               patterns=[R.dom[x]])),
           ('refcount.size', R.size == s - q.lo),
           ('sentinel.once', q.cnt[se] == 1),
           # C06: the new part lists, left to right, the keys whose last occurrence (in the queue at loop
           # entry) has been processed, ordered by that last occurrence; the first key processed (the most
           # recent use) sits right next to the sentinel
           # rank(x): position of the most recent use of x, in terms of the wrapper's pre-state queue Q0
           # (indices never shift in the LRU queue) with the current call's key ranked last
           ('entry.rank', forall([x], z3.Implies(z3.And(q0.cnt[x] >= 1, x != se), q0.last[x] == rank(x)),
                                 patterns=[q0.cnt[x]])),
           ('order.processed', forall([j], z3.Implies(z3.And(q.lo <= j, j < s), rank(q.arr[j]) >= q.hi),
                                      patterns=[q.arr[j]])),
           ('order.monotone', forall([j, j2], z3.Implies(z3.And(q.lo <= j, j < j2, j2 < s),
                                                         rank(q.arr[j]) < rank(q.arr[j2])),
                                     patterns=[z3.MultiPattern(q.arr[j], q.arr[j2])])),
           ('order.complete', forall([x], z3.Implies(z3.And(q0.cnt[x] >= 1, x != se, rank(x) >= q.hi), R.dom[x]),
                                     patterns=[q0.cnt[x]])),
           # no key vanishes from the queue during compaction (it is in the unprocessed part or in the new part)
           ('keys.kept', forall([x], z3.Implies(z3.And(q0.cnt[x] >= 1, x != se), q.cnt[x] >= 1),
                                patterns=[q0.cnt[x]])),
           ('order.most_recent', z3.And(z3.Implies(q.lo < s, q.arr[s - 1] == q0.arr[q0.hi - 1]),
                                        z3.Implies(q.lo == s, q.hi == q0.hi))),
           ]
    return out
