"""Level-A part of C09 (and of the fix b585cf2): klepto.keymaps.keymap.encode / encrypt under contract.

The real bodies are executed symbolically on an instance whose configuration (typed, flat, sentinel) is fixed per
case, for every call shape with <= 2 positional arguments and the keyword sets {}, {x}, {x, y}, argument values
symbolic.  Clauses:
  order_free      the key is identical for every insertion order of the keyword dictionary (a dict built in the order
                  x, y and one built in the order y, x): the key is a function of the keyword *map*
  matches_spec    flat:      args ++ [mark if keywords] ++ (name, value, ...) sorted by name
                                  ++ (typed: [mark] ++ types(args) ++ [mark if keywords] ++ types(values sorted by name))
                             and a lone element of a fast type is unwrapped when untyped
                  non-flat:  (args, {keywords sorted by name} [, types(args), types(values sorted by name)])
type(), the fast-type test and the sentinel are uninterpreted.  The number of arguments is bounded, the values are not.
"""
import itertools
import z3
from pyvc import intake
from pyvc.symex import (Val, BOOL, fresh, NoneC, Opaque, IntV, BoolV, NONE, NoneV, StrV, TupleV, Ref, FuncV, ClosureV, ClassV, Exc,
                        CallArgs, Unsupported, Obligation, State, PV)
from pyvc.models import ConcDict, ListObj, InstObj
from pyvc.builtins import Engine

TypeOf = z3.Function('TypeOf', Val, Val)
IsFast = z3.Function('IsFastType', Val, BOOL)
MARK = z3.Const('sentinel_mark', Val)


class FastSet(object):
    kind = 'fastset'

    def contains(self, I, st, container, item, node):
        return [(st, BoolV(IsFast(I.to_val(item, node))))]


def _typeof(I, st, ca):
    (o,) = ca.pos
    return [(st, Opaque(TypeOf(I.to_val(o))))]


def same(a, b, st_a=None, st_b=None):
    """structural identity of two results (python bool): same shape, identical terms, dicts in the same order"""
    if isinstance(a, Ref) and isinstance(b, Ref):
        oa, ob = st_a.get(a), st_b.get(b)
        if isinstance(oa, ConcDict) and isinstance(ob, ConcDict):
            return list(oa.items) == list(ob.items) and all(same(oa.items[k], ob.items[k], st_a, st_b) for k in oa.items)
        return False
    if type(a) is not type(b):
        return False
    if isinstance(a, TupleV):
        return len(a.items) == len(b.items) and all(same(x, y, st_a, st_b) for x, y in zip(a.items, b.items))
    if isinstance(a, Opaque):
        return a.term.eq(b.term)
    if isinstance(a, StrV):
        return a.s == b.s
    if isinstance(a, NoneV):
        return True
    return False


def obligations():
    I = Engine()
    tree, sha, _ = intake.load('keymaps.py')
    st = State()
    meid = I.load_module(st, 'klepto.keymaps', tree)
    cls = st.lookup(meid, 'keymap')
    obs = []
    fn0 = 'keymaps:keymap'
    if not isinstance(cls, ClassV) or cls.node is None:
        return [Obligation(fn0 + '/found', [], z3.BoolVal(False), prop='C09', func=fn0, path='', info={'unsupported': 'class keymap not found'})], sha
    for (typed, flat, marked) in itertools.product((False, True), repeat=3):
        cfg = 'typed=%s flat=%s sentinel=%s' % (typed, flat, 'given' if marked else 'none')
        fn = '%s.%s' % (fn0, 'encode' if flat else 'encrypt')
        for nargs in range(3):
            for names in ((), ('x',), ('x', 'y')):
                args = [Opaque(z3.Const('a%d' % i, Val)) for i in range(nargs)]
                vals = {nm: Opaque(z3.Const('v_' + nm, Val)) for nm in names}
                shape = '%s; %d positional, keywords %r' % (cfg, nargs, list(names))
                results = []
                try:
                    for order in itertools.permutations(names):
                        s0 = st.fork()
                        inst = InstObj(cls, {'typed': BoolV(typed), 'flat': BoolV(flat), '_mark': TupleV([Opaque(MARK)]) if marked else NONE,
                                             '__inner__': NONE, '__outer__': NONE, '_sorted': I.builtins['sorted'], '_tuple': I.builtins['tuple'],
                                             '_type': FuncV('type', _typeof), '_len': I.builtins['len'], '_fasttypes': s0.alloc(FastSet())})
                        ref = s0.alloc(inst)
                        I.cur_func = fn
                        kw = dict((nm, vals[nm]) for nm in order)
                        outs = I.call_method(s0, ref, '__call__', CallArgs(list(args), kw))
                        results.append((order, outs))
                except Unsupported as e:
                    obs.append(Obligation(fn + '/supported', [], z3.BoolVal(False), prop='C09', func=fn, path='%s: %s' % (shape, e),
                                          info={'unsupported': str(e)}))
                    continue
                base_order, base = results[0]
                # paths fork only on the fast-type test; pair them up by their path labels
                for (s, r) in base:
                    path = shape + ' | ' + ('/'.join(s.labels) or 'straight')

                    def ob(clause, goal, pc=None):
                        obs.append(Obligation('%s/%s' % (fn, clause), s.pc if pc is None else pc, goal if not isinstance(goal, bool) else z3.BoolVal(goal),
                                              prop='C09', func=fn, path=path, info={'case': 'keymap', 'op': shape}))
                    if isinstance(r, Exc):
                        ob('never_raises', False)
                        continue
                    # order_free
                    for (order, outs) in results[1:]:
                        match = [(s2, r2) for (s2, r2) in outs if s2.labels == s.labels]
                        ob('order_free', len(match) == 1 and not isinstance(match[0][1], Exc) and same(r, match[0][1], s, match[0][0]))
                    # matches_spec
                    sn = sorted(names)
                    types = lambda ts: TupleV([Opaque(TypeOf(t.term)) for t in ts])
                    if flat:
                        exp = list(args)
                        if names and marked:
                            exp.append(Opaque(MARK))
                        for nm in sn:
                            exp += [StrV(nm), vals[nm]]
                        if typed:
                            if marked:
                                exp.append(Opaque(MARK))
                            exp += list(types(args).items)
                            if names:
                                if marked:
                                    exp.append(Opaque(MARK))
                                exp += list(types([vals[nm] for nm in sn]).items)
                            want = TupleV(exp)
                            ob('matches_spec', same(r, want, s, s))
                        else:
                            if len(exp) == 1:
                                fast = IsFast(TypeOf(exp[0].term))
                                # unwrapped exactly when the lone element is of a fast type
                                unwrapped = isinstance(r, Opaque) and r.term.eq(exp[0].term)
                                kept = same(r, TupleV(exp), s, s)
                                ob('matches_spec', z3.If(fast, z3.BoolVal(unwrapped), z3.BoolVal(kept)))
                            else:
                                ob('matches_spec', same(r, TupleV(exp), s, s))
                    else:
                        ok = isinstance(r, TupleV) and len(r.items) == (4 if typed else 2) and same(r.items[0], TupleV(args), s, s)
                        if ok:
                            d = s.get(r.items[1]) if isinstance(r.items[1], Ref) else None
                            ok = isinstance(d, ConcDict) and list(d.items) == sn and all(same(d.items[nm], vals[nm], s, s) for nm in sn)
                        if ok and typed:
                            ok = same(r.items[2], types(args), s, s) and same(r.items[3], types([vals[nm] for nm in sn]), s, s)
                        ob('matches_spec', bool(ok))
    return obs, sha
