"""Contracts of the twelve cache decorators (klepto/_cache.py, klepto/safe.py) and the harness
that generates their proof obligations from the *real* source on every run.

For each (module, class):
  1. the module is loaded from /repo (ast) and the decorator is built by symbolically executing
     the real  cls(maxsize=M, cache=<abstract cache>, keymap=KM, ignore=IGN, tol=TOL, deep=False,
     purge=P)  -- __new__, __init__ -- and then the real  __call__(user_function)  prologue, so the
     closure environment of `wrapper` is exactly what the code builds;
  2. the bookkeeping objects created by the prologue are identified by *type* (deque, Counter,
     3-element stats list, the cache object), never by variable name;
  3. for every operation (call, key, lookup, info, clear, archive, load, dump, archived) the heap
     is havocked under the representation invariant Inv (DESIGN.md 4.1) and the real closure is
     executed on all paths; each (path, clause) is one obligation  pc => clause.

The clauses are Appendix A of DESIGN.md; each carries the property id it is reported under.
"""
import z3
from pyvc import intake
from pyvc.symex import (forall, Val, INT, BOOL, fresh, Hashable, NoneC, Opaque, IntV, BoolV, NONE, NoneV, StrV,
                        TupleV, Ref, FuncV, BoundV, ClosureV, MethodV, ClassV, Exc, CallArgs, Unsupported,
                        Obligation, State, LoopSpec, EngineError)
from pyvc import models
from pyvc.models import DictObj, ListObj, DequeObj, InstObj, ArchiveObj, ConcDict, EMPTY_SET
from pyvc.builtins import Engine
from . import kcache

POLICIES = ['no_cache', 'inf_cache', 'lfu_cache', 'lru_cache', 'mru_cache', 'rr_cache']
MODULES = [('_cache.py', 'klepto._cache', False), ('safe.py', 'klepto.safe', True)]

# ---- uninterpreted symbols shared by models and contract -----------------------------------
V2 = (Val, Val)
RA1 = z3.Function('RA1', Val, Val, Val)           # rounded_args(*a, **k)[0]
RA2 = z3.Function('RA2', Val, Val, Val)
RAraises = z3.Function('RAraises', Val, Val, BOOL)
RAexc = z3.Function('RAexc', Val, Val, Val)
KG1 = z3.Function('KG1', Val, Val, Val, Val, Val)  # _keygen(func, ignore, *a, **k)[0]
KG2 = z3.Function('KG2', Val, Val, Val, Val, Val)
KGraises = z3.Function('KGraises', Val, Val, Val, Val, BOOL)
KGexc = z3.Function('KGexc', Val, Val, Val, Val, Val)
KM = z3.Function('KM', Val, Val, Val)             # keymap(*a, **k)
KMraises = z3.Function('KMraises', Val, Val, BOOL)
KMexc = z3.Function('KMexc', Val, Val, Val)
F = z3.Function('F', Val, Val, Val)               # the user function (deterministic)
Fraises = z3.Function('Fraises', Val, Val, BOOL)
Fexc = z3.Function('Fexc', Val, Val, Val)
Gval = z3.Function('Gval', Val, Val)              # value by key (exists under (A-kappa))
Fok = z3.Function('Fok', Val, BOOL)               # calls with this key return normally
UF = z3.Const('user_function', Val)
IGN = z3.Const('ignore', Val)
TOL = z3.Const('tol', Val)
CacheInfoC = z3.Function('CacheInfo', INT, INT, INT, Val, INT, Val)


# state components a property's clauses do not read (regular expression over symbol names): the quantified
# premises about them are left out of the first proof attempt (sound: premises are only dropped; the full
# path condition is tried next).  C06 speaks about which keys are resident and about the recency /
# frequency bookkeeping -- not about stored values, archive contents or statistics.
READS_DENY = {
    'C06': r'^(A_|S_|cache_A_|cache_S_|cache_mem_|LA_|Gval$|Fok$|F$|Fraises$|hit!|miss!|load!)',
}


def _packed(ca, name, npos=0):
    if len(ca.pos) != npos or ca.kw or not isinstance(ca.star, Opaque) or not isinstance(ca.dstar, Opaque):
        raise Unsupported('%s is not called as %s(%s*args, **kwds)' % (name, name, 'f, ignore, ' if npos else ''))
    return ca.star.term, ca.dstar.term


def m_rounded_args(I, st, ca):
    a, k = _packed(ca, 'rounded_args')
    out = []
    for (s, r) in I.branch(st, RAraises(a, k), 'round-raises', None):
        if r:
            out.append((s, Exc(None, term=RAexc(a, k), origin='rounded_args')))
        else:
            out.append((s, TupleV([Opaque(RA1(a, k)), Opaque(RA2(a, k))])))
    return out


def m_keygen(I, st, ca):
    a, k = _packed(ca, '_keygen', 2)
    f = I.to_val(ca.pos[0])
    ign = I.to_val(ca.pos[1])
    out = []
    for (s, r) in I.branch(st, KGraises(f, ign, a, k), 'keygen-raises', None):
        if r:
            out.append((s, Exc(None, term=KGexc(f, ign, a, k), origin='_keygen')))
        else:
            out.append((s, TupleV([Opaque(KG1(f, ign, a, k)), Opaque(KG2(f, ign, a, k))])))
    return out


def m_keymap(I, st, ca):
    a, k = _packed(ca, 'keymap')
    out = []
    for (s, r) in I.branch(st, KMraises(a, k), 'keymap-raises', None):
        if r:
            out.append((s, Exc(None, term=KMexc(a, k), origin='keymap')))
        else:
            out.append((s, Opaque(KM(a, k))))
    return out


def m_user_function(I, st, ca):
    a, k = _packed(ca, 'user_function')
    out = []
    for (s, r) in I.branch(st, Fraises(a, k), 'user-raises', 'user-returns'):
        s = s.fork()
        if r:
            s.events.append(('user', a, k, 'raise'))
            out.append((s, Exc(None, term=Fexc(a, k), origin='user_function')))
        else:
            s.events.append(('user', a, k, 'return'))
            out.append((s, Opaque(F(a, k))))
    return out


class ExtV(FuncV):
    """modelled callable that is also an object with identity (boxes to .term)"""
    __slots__ = ('term',)

    def __init__(self, name, fn, term):
        FuncV.__init__(self, name, fn, 'ext')
        self.term = term


def m_cacheinfo(I, st, ca):
    if not ca.plain() or ca.kw or len(ca.pos) != 5:
        raise Unsupported('CacheInfo called with %r' % (ca,))
    return [(st, TupleV(ca.pos))]


class Snap(object):
    """the abstract state Sigma of one decorated function, read off a symbolic State"""

    def __init__(self, case, st):
        self.st = st
        self.mem = st.get(case.cache_ref)
        self.a_ref = self.mem.attrs['__archive__']
        self.s_ref = self.mem.attrs['__swap__']
        self.A = st.get(self.a_ref)
        self.S = st.get(self.s_ref)
        stats = st.get(case.stats_ref)
        self.stats = [x.term for x in stats.items] if all(isinstance(x, IntV) for x in stats.items) and len(stats.items) == 3 else None
        self.q = st.get(case.queue_ref) if case.queue_ref is not None else None
        self.C = st.get(case.counter_ref) if case.counter_ref is not None else None
        # state the closure hides in lists it created (seeds C06-7, C16-9): the element terms, for "unchanged" clauses
        self.hidden = []
        for r in getattr(case, 'hidden_refs', ()):
            o = st.get(r)
            if o.kind == 'list':
                self.hidden.append([I_term(x) for x in o.items])
        if self.C is not None and self.C.vsort != 'Int':
            if self.C.role == 'fresh' and self.C.dom.eq(EMPTY_SET):
                self.C = DictObj.empty('Int', self.C.cls, 'counter')     # still empty: Counter()
            else:
                raise Unsupported('counter object holds non-integer values')


def I_term(v):
    """a z3 term for a value held in hidden state (None when it has none)"""
    if isinstance(v, (IntV, BoolV, Opaque)):
        return v.term
    if isinstance(v, NoneV):
        return NoneC
    return None


def x_():
    return z3.Const('x!q', Val)


def map_eq(d1, d2):
    """extensional equality of two finite maps (dom, val on dom, size)"""
    x = x_()
    return z3.And(d1.size == d2.size,
                  forall([x], d1.dom[x] == d2.dom[x]),
                  forall([x], z3.Implies(d1.dom[x], d1.val[x] == d2.val[x])))


def deque_eq(q1, q2):
    i = z3.Const('i!q', INT)
    return z3.And(q1.lo == q2.lo, q1.hi == q2.hi,
                  forall([i], z3.Implies(z3.And(q1.lo <= i, i < q1.hi), q1.arr[i] == q2.arr[i])))


class Case(object):
    """one decorator class of one module, set up from the real source"""

    def __init__(self, modfile, modname, safe, clsname, loopspecs=None):
        self.modfile, self.modname, self.safe, self.clsname = modfile, modname, safe, clsname
        self.policy = clsname.split('_')[0]
        self.qual = '%s:%s' % (modfile[:-3], clsname)
        self.loopspecs = loopspecs or {}
        self.unsupported = None
        self.sha = None
        self.extra = {}
        try:
            self._setup()
        except Unsupported as e:
            self.unsupported = str(e)

    # ------------------------------------------------------------------------------------
    def _setup(self):
        I = self.I = Engine()
        tree, self.sha, _ = intake.load(self.modfile)
        kcls = self.kcls = kcache.make_kcache_class(I)
        ext = I.externals
        self.reentrant = False      # set by obligations_call_reentrant: the user function calls back into the cache
        self.uf = ExtV('user_function', self._m_user, UF)
        self.keymap = ExtV('keymap', m_keymap, z3.Const('keymap_obj', Val))
        self.rounded_args = ExtV('rounded_args', m_rounded_args, z3.Const('roundargs_obj', Val))
        ext[('klepto.archives', 'cache')] = kcls
        ext[('klepto.keymaps', 'hashmap')] = FuncV('hashmap', _no_default('hashmap'))
        ext[('klepto.keymaps', 'stringmap')] = FuncV('stringmap', _no_default('stringmap'))
        ext[('klepto.tools', 'CacheInfo')] = FuncV('CacheInfo', m_cacheinfo)
        ext[('klepto.rounding', 'deep_round')] = FuncV('deep_round', self._m_round('deep'))
        ext[('klepto.rounding', 'simple_round')] = FuncV('simple_round', self._m_round('simple'))
        ext[('klepto._inspect', '_keygen')] = FuncV('_keygen', m_keygen)
        ext[('functools', 'partial')] = FuncV('partial', _no_default('partial'))
        from . import loops
        self.loopspecs = loops.make_loopspecs(self)
        for key, spec in self.loopspecs.items():
            I.loopspecs[key] = spec
        st = State()
        meid = I.load_module(st, self.modname, tree)
        self.module_unsupported = list(I.unsupported)
        cls = st.lookup(meid, self.clsname)
        if not isinstance(cls, ClassV):
            raise Unsupported('class %s not found in %s' % (self.clsname, self.modfile))
        self.cls = cls
        self.st_loaded = st.fork()
        # configuration
        self.M = z3.Const('maxsize', INT)
        self.P = z3.Const('purge', BOOL)
        st.assume(self.M >= 1, IGN != NoneC)
        self.cache_ref = kcache.new_cache(I, st, kcls)
        kw = {'maxsize': IntV(self.M), 'cache': self.cache_ref, 'keymap': self.keymap,
              'ignore': Opaque(IGN), 'tol': Opaque(TOL), 'deep': BoolV(False), 'purge': BoolV(self.P)}
        I.cur_func = '%s.__init__' % self.qual
        res = I.call(st, cls, CallArgs([], kw))
        res = [(s, r) for (s, r) in res]
        if len(res) != 1 or isinstance(res[0][1], Exc):
            raise Unsupported('construction of %s forks or raises: %r' % (self.clsname, [r for _, r in res]))
        st, dec = res[0]
        self.decorator = dec
        dobj = st.get(dec)
        if getattr(dobj, 'cls', None) is not cls:
            raise Unsupported('constructor returned an instance of %r' % (getattr(dobj, 'cls', None),))
        state = dobj.attrs.get('__state__')
        self.state_items = dict(st.get(state).items) if isinstance(state, Ref) and st.get(state).kind == 'concdict' else None
        # the effective configuration, as __init__ recorded it
        self.eff_maxsize = self.state_items.get('maxsize') if self.state_items else None
        self.eff_purge = self.state_items.get('purge') if self.state_items else None
        before = set(st.heap)
        I.cur_func = '%s.__call__' % self.qual
        res = I.call_method(st, dec, '__call__', CallArgs([self.uf]))
        if len(res) != 1 or isinstance(res[0][1], Exc):
            raise Unsupported('%s.__call__ prologue forks or raises: %r' % (self.clsname, [r for _, r in res]))
        st, w = res[0]
        if not isinstance(w, ClosureV):
            raise Unsupported('__call__ did not return a python function: %r' % (w,))
        self.wrapper = w
        self.st0 = st
        # identify bookkeeping objects created by the prologue, by type
        self.stats_ref = self.queue_ref = self.counter_ref = self.sentinel_ref = None
        for oid in sorted(set(st.heap) - before):
            obj = st.heap[oid]
            r = Ref(oid)
            if obj.kind == 'list' and len(obj.items) == 3 and all(isinstance(x, IntV) for x in obj.items):
                if self.stats_ref is not None:
                    raise Unsupported('two candidate statistics lists in the prologue')
                self.stats_ref = r
            elif obj.kind == 'deque':
                if self.queue_ref is not None:
                    raise Unsupported('two deques in the prologue')
                self.queue_ref = r
            elif obj.kind == 'dict' and obj.cls is not None and obj.cls.name == 'Counter':
                if self.counter_ref is not None:
                    raise Unsupported('two Counters in the prologue')
                self.counter_ref = r
            elif obj.kind == 'inst' and obj.cls is I.builtins['object']:
                self.sentinel_ref = r
        if self.stats_ref is None:
            raise Unsupported('no statistics list [0, 0, 0] found in the prologue')
        # any OTHER mutable object the prologue creates is hidden state of the wrapper: at the time of a call it holds whatever
        # earlier calls left there, not what it held at decoration time, and no invariant about it is known
        known = {r.oid for r in (self.stats_ref, self.queue_ref, self.counter_ref, self.sentinel_ref) if r is not None}
        self.hidden_refs = []
        for oid in sorted(set(st.heap) - before):
            obj = st.heap[oid]
            if oid in known or obj.kind not in ('list', 'dict', 'concdict', 'deque', 'set'):
                continue
            self.hidden_refs.append(Ref(oid))
        self.ops = {}
        for nm in ('info', 'clear', 'load', 'dump', 'archive', 'archived', 'key', 'lookup',
                   '__cache__', '__mask__', '__map__', '__wrapped__'):
            self.ops[nm] = st.fattrs.get((w.cid, nm))

    def _m_user(self, I, st, ca):
        outs = m_user_function(I, st, ca)
        if not self.reentrant:
            return outs
        # re-entrancy tier: while the user function runs it may call the decorated function again (memoised recursion),
        # so on return the whole abstract state is *some* state satisfying Inv; by the induction hypothesis on the inner
        # calls (C05) the cache has not grown past max(maxsize, size at entry of the outer call)
        res = []
        for (s, r) in outs:
            s2, mid = self.havoc(s)
            pre = I.fn_pre
            if self.policy not in ('no', 'inf'):
                s2.assume(mid.mem.size <= z3.If(self.M >= pre.mem.size, self.M, pre.mem.size))
            elif self.policy == 'no':
                s2.assume(mid.mem.size <= z3.If(pre.mem.size >= 0, pre.mem.size, 0))
            s2.assume(mid.A.null == pre.A.null, mid.S.null == pre.S.null)
            s2.ghost = dict(s2.ghost)
            s2.ghost['fnpre'] = mid
            res.append((s2, r))
        return res

    def _m_round(self, kind):
        case = self

        def factory(I, st, ca):
            # simple_round(tol) / deep_round(tol): returns a decorator
            if not ca.plain() or len(ca.pos) + len(ca.kw) != 1:
                raise Unsupported('%s_round called with %r' % (kind, ca))
            tol = ca.pos[0] if ca.pos else ca.kw.get('tol')
            case.round_kind, case.round_tol = kind, tol

            def decorate(I, st, ca2):
                if not ca2.plain() or len(ca2.pos) != 1 or not isinstance(ca2.pos[0], ClosureV):
                    raise Unsupported('rounding decorator applied to %r' % (ca2,))
                f = ca2.pos[0]
                # the decorated function must be the identity pair function (args, kwds)
                a, k = Opaque(fresh('ra', Val)), Opaque(fresh('rk', Val))
                r = I.call(st, f, CallArgs([], {}, a, k))
                ok = (len(r) == 1 and isinstance(r[0][1], TupleV) and len(r[0][1].items) == 2 and
                      r[0][1].items[0] is a and r[0][1].items[1] is k)
                if not ok:
                    raise Unsupported('rounded_args is not `return (args, kwds)`')
                return [(st, case.rounded_args)]
            return [(st, FuncV('%s_round(tol)' % kind, decorate))]
        return factory

    # ------------------------------------------------------------------------------------
    def havoc(self, st0=None):
        """fresh symbolic Sigma satisfying Inv -> (state, pre-snapshot)"""
        I = self.I
        st = (st0 or self.st0).fork()
        mem0 = st.get(self.cache_ref)
        a_ref, s_ref = mem0.attrs['__archive__'], mem0.attrs['__swap__']
        for r, nm in ((a_ref, 'A'), (s_ref, 'S')):
            A = ArchiveObj.symbolic(nm, role=nm)
            st.put(r, A)
            st.assume(*A.facts())
        mem = DictObj.symbolic('mem', 'Val', self.kcls, role='cache')
        mem.attrs = dict(mem0.attrs)
        st.put(self.cache_ref, mem)
        st.assume(*mem.facts())
        stats = [fresh(n, INT) for n in ('hit', 'miss', 'load')]
        st.put(self.stats_ref, ListObj([IntV(t) for t in stats], 'stats'))
        st.assume(*[t >= 0 for t in stats])
        if self.queue_ref is not None:
            q = DequeObj.symbolic('q', 'queue')
            st.put(self.queue_ref, q)
            st.assume(*q.facts())
        if self.counter_ref is not None:
            c0 = st.get(self.counter_ref)
            C = DictObj.symbolic('cnt', 'Int', c0.cls, role='counter')
            st.put(self.counter_ref, C)
            st.assume(*C.facts())
        for r in getattr(self, 'hidden_refs', ()):
            o = st.get(r)
            if o.kind == 'list':
                # arbitrary contents of the type the prologue put there (a counter stays an integer, a flag a boolean)
                st.put(r, ListObj([IntV(fresh('hidden', INT)) if isinstance(x, IntV) and not isinstance(x, BoolV) else
                                   (BoolV(fresh('hidden', BOOL)) if isinstance(x, BoolV) else Opaque(fresh('hidden', Val))) for x in o.items], o.role))
            elif o.kind in ('dict', 'concdict'):
                d = DictObj.symbolic('hidden', 'Val', getattr(o, 'cls', None))
                st.put(r, d)
                st.assume(*d.facts())
            elif o.kind == 'deque':
                q = DequeObj.symbolic('hiddenq', 'hidden')
                st.put(r, q)
                st.assume(*q.facts())
            else:
                raise Unsupported('hidden mutable closure state of kind %s' % o.kind)
        pre = Snap(self, st)
        for (nm, g) in self.inv(pre):
            st.assume(g)
        return st, pre

    def frame_guard(self, st_pre, results):
        """nothing outside the modelled state Sigma may be written by an operation: a pre-existing heap object that is not one
        of the known roles, or a function attribute, that differs afterwards is state the contracts know nothing about (it would
        keep its decoration-time value in every symbolic pre-state) -> the operation is outside what is translated"""
        mem0 = st_pre.get(self.cache_ref)
        roles = {r.oid for r in (self.cache_ref, self.stats_ref, self.queue_ref, self.counter_ref, mem0.attrs.get('__archive__'),
                                 mem0.attrs.get('__swap__')) if isinstance(r, Ref)}
        roles |= {r.oid for r in getattr(self, 'hidden_refs', ())}
        for (s, _) in results:
            for oid, obj in st_pre.heap.items():
                if oid in roles:
                    continue
                if s.heap.get(oid) is not obj:
                    raise Unsupported('the operation writes to an object outside the modelled state (%s #%d created before the call): hidden state'
                                      % (getattr(obj, 'kind', '?'), oid))
            if s.fattrs != st_pre.fattrs:
                changed = [k for k in set(s.fattrs) | set(st_pre.fattrs) if s.fattrs.get(k) is not st_pre.fattrs.get(k)]
                raise Unsupported('the operation assigns function attributes %r: hidden state' % ([n for (_, n) in changed][:3],))
        return results

    def sentinel_term(self):
        return self.I.ref_const(self.sentinel_ref) if self.sentinel_ref is not None else None

    def inv(self, sn):
        """representation invariant, as named conjuncts [(name, z3 Bool)]"""
        x = x_()
        out = []

        def inv_val(nm, d, guard=None):
            body = z3.Implies(d.dom[x], z3.And(Fok(x), d.val[x] == Gval(x)))
            out.append(('Inv_val[%s]' % nm, forall([x], body, patterns=[d.dom[x]])))
        inv_val('mem', sn.mem)
        inv_val('A', sn.A)
        inv_val('S', sn.S)
        if sn.stats is not None:
            out.append(('stats>=0', z3.And(*[t >= 0 for t in sn.stats])))
        pol = self.policy
        if pol == 'lfu' and sn.C is not None:
            U = sn.C
            out.append(('Inv_lfu', forall([x], z3.Implies(U.dom[x], z3.And(sn.mem.dom[x], U.val[x] >= 1)),
                                           patterns=[U.dom[x]])))
        if pol == 'lru' and sn.C is not None and sn.q is not None:
            R, q = sn.C, sn.q
            rv = z3.If(R.dom[x], R.val[x], 0)
            out.append(('Inv_lru.refcount', forall([x], rv == q.cnt[x], patterns=[q.cnt[x]])))
            out.append(('Inv_lru.resident', forall([x], z3.Implies(q.cnt[x] >= 1, sn.mem.dom[x]),
                                                      patterns=[q.cnt[x]])))
            se = self.sentinel_term()
            if se is not None:
                out.append(('Inv_lru.sentinel', z3.And(q.cnt[se] == 0, z3.Not(sn.mem.dom[se]),
                                                       z3.Not(sn.A.dom[se]), z3.Not(sn.S.dom[se]))))
        if pol == 'mru' and sn.q is not None:
            q = sn.q
            out.append(('Inv_mru.hashable', forall([x], z3.Implies(q.cnt[x] >= 1, Hashable(x)),
                                                   patterns=[q.cnt[x]])))
        return out

    # ------------------------------------------------------------------------------------
    def key_terms(self, a0, k0):
        r1, r2 = RA1(a0, k0), RA2(a0, k0)
        g1, g2 = KG1(UF, IGN, r1, r2), KG2(UF, IGN, r1, r2)
        key = KM(g1, g2)
        kd = z3.And(z3.Not(RAraises(a0, k0)), z3.Not(KGraises(UF, IGN, r1, r2)), z3.Not(KMraises(g1, g2)))
        kexcs = [RAexc(a0, k0), KGexc(UF, IGN, r1, r2), KMexc(g1, g2)]
        return key, kd, kexcs

    def call_assumptions(self, a0, k0):
        """the instance of (A-kappa) for this call, and sentinel freshness"""
        key, kd, _ = self.key_terms(a0, k0)
        out = [z3.Implies(kd, z3.And(Fraises(a0, k0) == z3.Not(Fok(key)),
                                     z3.Implies(z3.Not(Fraises(a0, k0)), Gval(key) == F(a0, k0))))]
        se = self.sentinel_term()
        if se is not None:
            out.append(key != se)
            out.append(Hashable(se))
        return out

    def same_state(self, pre, post, include_stats=True):
        """Sigma' = Sigma as named conjuncts"""
        out = [('mem', map_eq(pre.mem, post.mem)),
               ('archive', z3.And(map_eq(pre.A, post.A), pre.A.null == post.A.null)),
               ('parked', z3.And(map_eq(pre.S, post.S), pre.S.null == post.S.null))]
        if include_stats:
            if post.stats is None:
                out.append(('stats', z3.BoolVal(False)))
            else:
                out.append(('stats', z3.And(*[a == b for a, b in zip(pre.stats, post.stats)])))
        if pre.q is not None:
            out.append(('queue', deque_eq(pre.q, post.q)))
        if pre.C is not None:
            out.append(('counter', map_eq(pre.C, post.C)))
        if getattr(pre, 'hidden', None):
            same = []
            for a, b in zip(pre.hidden, getattr(post, 'hidden', [])):
                if len(a) != len(b):
                    same.append(z3.BoolVal(False))
                    continue
                for x, y in zip(a, b):
                    same.append(z3.BoolVal(x is y) if (x is None or y is None) else (x == y if x.sort() == y.sort() else z3.BoolVal(False)))
            out.append(('hidden', z3.And(*same) if same else z3.BoolVal(True)))
        return out

    def binding_ok(self, pre, post):
        return post.a_ref == pre.a_ref and post.s_ref == pre.s_ref

    # ------------------------------------------------------------------------------------
    def obligations_call(self):
        """wrapper(*args, **kwds) from an arbitrary Inv state"""
        I = self.I
        st, pre = self.havoc()
        a0, k0 = z3.Const('args', Val), z3.Const('kwds', Val)
        st.assume(*self.call_assumptions(a0, k0))
        self.extra['call'] = {'pre': pre, 'a0': a0, 'k0': k0}
        I.cur_func = '%s.wrapper' % self.qual
        I.fn_pre = pre
        I.obligations = []
        results = self.frame_guard(st, I.call(st, self.wrapper, CallArgs([], {}, Opaque(a0), Opaque(k0))))
        obs = []
        fn = '%s.wrapper' % self.qual
        key, kd, kexcs = self.key_terms(a0, k0)
        H = Hashable(key)
        for pi, (s, res) in enumerate(results):
            post = Snap(self, s)
            path = '/'.join(s.labels) or 'straight'
            users = [e for e in s.events if e[0] == 'user']
            called = len(users) >= 1
            uraised = any(e[3] == 'raise' for e in users)

            def ob(prop, clause, goal):
                if isinstance(goal, bool):
                    goal = z3.BoolVal(goal)
                info = {'case': self.qual, 'op': 'call', 'pi': pi}
                if prop in READS_DENY:
                    info['deny'] = READS_DENY[prop]
                obs.append(Obligation('%s/%s' % (fn, clause), s.pc, goal, kind='clause', prop=prop,
                                      path=path, func=fn, info=info, cuts=s.ghost.get('cuts', ())))
            normal = not isinstance(res, Exc)
            on = z3.Not(pre.A.null)
            inmem = pre.mem.dom[key]
            inarch = z3.And(on, pre.A.dom[key])
            usable = z3.And(kd, H)
            if 'arch-write-fails' in s.labels:
                # the archive rejected a write (a value it cannot encode).  The properties are stated for archives that accept
                # the values; what C07 still says on this path is the ORDER: an entry is in the archive *before* it is dropped,
                # so a rejected write must not have cost any entry.  Only that clause, the frame and Inv are claimed here.
                x = x_()
                mval = lambda t: z3.If(z3.And(t == key, z3.Not(inmem)), Gval(key), pre.mem.val[t])
                ob('C07', 'rejected_archive_write_loses_nothing', forall([x], z3.Implies(
                    z3.Or(pre.mem.dom[x], z3.And(x == key, usable, z3.Not(inmem))),
                    z3.Or(z3.And(post.mem.dom[x], post.mem.val[x] == mval(x)),
                          z3.And(post.A.dom[x], post.A.val[x] == mval(x))))))
                ob('C07', 'rejected_archive_write_propagates', (not normal) and res.origin == 'archive write rejected')
                ob('C08', 'frame.archive_binding', self.binding_ok(pre, post))
                for (nm, g) in self.inv(post):
                    ob('INV', 'inv.%s' % nm, g)
                continue
            # ---- C18/C08 frame: the wrapper never rebinds the archive slots
            ob('C08', 'frame.archive_binding', self.binding_ok(pre, post))
            # ---- C18: whatever a call stores, it stores under key(args) -- the term key()/lookup() are proved to use
            xs = x_()
            ob('C18', 'stored_under_key[mem]', forall([xs], z3.Implies(z3.And(post.mem.dom[xs], z3.Not(pre.mem.dom[xs])), z3.And(kd, xs == key))))
            ob('C18', 'stored_under_key[archive]', forall([xs], z3.Implies(z3.And(post.A.dom[xs], z3.Not(pre.A.dom[xs])),
                                                                           z3.Or(pre.mem.dom[xs], z3.And(kd, xs == key)))))
            # ---- C02 / C12: evaluations
            ob('C02', 'evals.at_most_once', len(users) <= 1)
            for e in users:
                ob('C12', 'evals.original_arguments', z3.And(e[1] == a0, e[2] == k0))
            if self.safe:
                misscond = z3.Or(z3.Not(usable), z3.And(z3.Not(inmem), z3.Not(inarch)))
            else:
                misscond = z3.And(usable, z3.Not(inmem), z3.Not(inarch))
            ob('C02', 'evals.iff_not_retrievable', misscond if called else z3.Not(misscond))
            # ---- C01
            if normal:
                if isinstance(res, Opaque):
                    ob('C01', 'result.equals_function', res.term == F(a0, k0))
                else:
                    ob('C01', 'result.equals_function', False)
            # ---- C16
            if not normal:
                if res.term is not None and res.term.eq(Fexc(a0, k0)):
                    ob('C16', 'raises.only_listed', uraised)
                elif any(res.term.eq(t) for t in kexcs):
                    ob('C16', 'raises.only_listed', not self.safe)
                else:
                    # an exception klepto itself produced: only the unhashable-key TypeError of the
                    # standard decorators is allowed
                    allowed = (not self.safe) and res.kind in ('TypeError', None)
                    ob('C16', 'raises.only_listed', z3.And(kd, z3.Not(H)) if allowed else False)
                for (nm, g) in self.same_state(pre, post):
                    ob('C16', 'raises.state_unchanged[%s]' % nm, g)
                ob('C16', 'raises.single_evaluation', len(users) == (1 if uraised else 0) or
                   (len(users) <= 1))
            if uraised:
                ob('C16', 'raises.user_exception_propagates',
                   (not normal) and res.term is not None and res.term.eq(Fexc(a0, k0)))
            # ---- C15
            if post.stats is None:
                ob('C15', 'stats.shape', False)
            elif normal:
                h0, m0, l0 = pre.stats
                h1, m1, l1 = post.stats
                if self.policy == 'no':
                    hitc = z3.BoolVal(False)
                    loadc = z3.And(usable, z3.Or(inmem, inarch))
                else:
                    hitc = z3.And(usable, inmem)
                    loadc = z3.And(usable, z3.Not(inmem), inarch)
                ob('C15', 'stats.hit', h1 == h0 + z3.If(hitc, 1, 0))
                ob('C15', 'stats.load', l1 == l0 + z3.If(loadc, 1, 0))
                ob('C15', 'stats.miss', m1 == m0 + (1 if called else 0))
                ob('C15', 'stats.one_per_call', h1 + m1 + l1 == h0 + m0 + l0 + 1)
            # ---- C05
            size0, size1 = pre.mem.size, post.mem.size
            x = x_()
            if self.policy == 'no':
                ob('C05', 'size.bound', size1 <= z3.If(size0 >= 0, size0, 0))
                if normal:
                    ob('C05', 'size.nothing_resident', z3.Implies(usable, z3.And(size1 == 0,
                                                                                 forall([x], z3.Not(post.mem.dom[x])))))
            elif self.policy == 'inf':
                ob('C05', 'size.never_evicts', forall([x], z3.Implies(pre.mem.dom[x], z3.And(
                    post.mem.dom[x], post.mem.val[x] == pre.mem.val[x]))))
            else:
                ob('C05', 'size.bound', size1 <= z3.If(self.M >= size0, self.M, size0))
                if normal:
                    overflow = z3.And(usable, z3.Not(inmem), size0 + 1 > self.M)
                    ob('C05', 'size.purge_empties', z3.Implies(z3.And(on, self.P, overflow), z3.And(
                        size1 == 0, forall([x], z3.Not(post.mem.dom[x])))))
            # ---- C07
            if normal and isinstance(res, Opaque):
                newentry = z3.And(usable, z3.Not(inmem))
                mval = lambda t: z3.If(z3.And(t == key, z3.Not(inmem)), res.term, pre.mem.val[t])
                ob('C07', 'evicted_entries_are_archived', z3.Implies(on, forall([x], z3.Implies(
                    z3.Or(pre.mem.dom[x], z3.And(x == key, newentry)),
                    z3.Or(z3.And(post.mem.dom[x], post.mem.val[x] == mval(x)),
                          z3.And(post.A.dom[x], post.A.val[x] == mval(x)))))))
            ob('C07', 'archive_entries_preserved', forall([x], z3.Implies(
                pre.A.dom[x], z3.And(post.A.dom[x], post.A.val[x] == pre.A.val[x]))))
            ob('C07', 'parked_archive_untouched', z3.And(map_eq(pre.S, post.S)))
            ob('C08', 'archive_off_untouched', z3.Implies(pre.A.null, map_eq(pre.A, post.A)))
            # ---- C06 (hit removes nothing; the policy-specific victim clauses are in policy.py)
            if normal and self.policy != 'no':
                ob('C06', 'hit_removes_nothing', z3.Implies(z3.And(usable, inmem), map_eq(pre.mem, post.mem)))
                if self.policy in ('lfu', 'lru', 'mru', 'rr'):
                    noov = z3.And(usable, z3.Not(inmem), size0 + 1 <= self.M)
                    ob('C06', 'no_overflow_removes_nothing', z3.Implies(noov, forall([x], z3.Implies(
                        pre.mem.dom[x], z3.And(post.mem.dom[x], post.mem.val[x] == pre.mem.val[x])))))
                    ob('C06', 'new_entry_resident_without_overflow', z3.Implies(noov, post.mem.dom[key]))
            # ---- C06: the advertised policy (DESIGN.md 5, C06).  Coh = every resident key has
            # bookkeeping (entered through a call since the last clear); the victim clauses are
            # stated under Coh, the "use is recorded" clauses unconditionally.
            if normal and self.policy in ('lfu', 'lru', 'mru', 'rr'):
                y = z3.Const('y!q', Val)
                evict = z3.And(usable, z3.Not(inmem), size0 + 1 > self.M, z3.Not(z3.And(on, self.P)))
                removed = lambda t: z3.And(z3.Or(pre.mem.dom[t], t == key), z3.Not(post.mem.dom[t]))
                if self.policy == 'lfu' and pre.C is not None and post.C is not None:
                    U0, U1 = pre.C, post.C
                    u0 = lambda t: z3.If(U0.dom[t], U0.val[t], 0)
                    ucur = lambda t: u0(t) + z3.If(t == key, 1, 0)
                    coh = forall([x], z3.Implies(pre.mem.dom[x], U0.dom[x]), patterns=[pre.mem.dom[x]])
                    ob('C06', 'lfu.use_recorded', z3.Implies(z3.And(usable, post.mem.dom[key]),
                                                             z3.And(U1.dom[key], U1.val[key] == u0(key) + 1)))
                    ob('C06', 'lfu.other_counts_unchanged', forall([x], z3.Implies(
                        z3.And(x != key, U1.dom[x]), z3.And(U0.dom[x], U1.val[x] == U0.val[x]))))
                    ob('C06', 'lfu.victims_least_frequent', z3.Implies(z3.And(evict, coh), forall([x, y], z3.Implies(
                        z3.And(removed(x), post.mem.dom[y]), ucur(x) <= ucur(y)))))
                    ob('C06', 'lfu.bookkeeping_covers_residents', z3.Implies(coh, forall([x], z3.Implies(
                        post.mem.dom[x], U1.dom[x]))))
                if self.policy in ('lru', 'mru') and pre.q is not None and post.q is not None:
                    q0, q1 = pre.q, post.q
                    coh = forall([x], z3.Implies(pre.mem.dom[x], q0.cnt[x] >= 1), patterns=[pre.mem.dom[x]])
                    ob('C06', '%s.use_recorded' % self.policy, z3.Implies(
                        z3.And(usable, post.mem.dom[key]),
                        z3.And(q1.cnt[key] >= 1, q1.last[key] == q1.hi - 1)))
                    ob('C06', '%s.recency_order_preserved' % self.policy, forall([x, y], z3.Implies(
                        z3.And(x != key, y != key, post.mem.dom[x], post.mem.dom[y],
                               q1.cnt[x] >= 1, q1.cnt[y] >= 1, q0.cnt[x] >= 1, q0.cnt[y] >= 1),
                        (q0.last[x] < q0.last[y]) == (q1.last[x] < q1.last[y]))))
                    ob('C06', '%s.bookkeeping_covers_residents' % self.policy, z3.Implies(coh, forall([x], z3.Implies(
                        post.mem.dom[x], q1.cnt[x] >= 1))))
                    if self.policy == 'lru':
                        older = lambda v, t: q0.last[v] < q0.last[t]
                    else:
                        older = lambda v, t: q0.last[v] > q0.last[t]
                    ob('C06', '%s.victim' % self.policy, z3.Implies(z3.And(evict, coh), z3.And(
                        post.mem.dom[key], size1 == size0,
                        forall([x, y], z3.Implies(z3.And(removed(x), pre.mem.dom[y], y != x),
                                                  z3.And(post.mem.dom[y], older(x, y)))))))
                if self.policy == 'rr':
                    ob('C06', 'rr.exactly_one_victim', z3.Implies(evict, z3.And(
                        size1 == size0, forall([x, y], z3.Implies(z3.And(removed(x), removed(y)), x == y)))))
                ob('C06', 'survivors_keep_their_values', forall([x], z3.Implies(
                    z3.And(pre.mem.dom[x], post.mem.dom[x]), post.mem.val[x] == pre.mem.val[x])))
            # ---- Inv'
            for (nm, g) in self.inv(post):
                ob('INV', 'inv.%s' % nm, g)
        # loop obligations produced while executing
        for o in I.obligations:
            o.prop = o.prop or 'INV'
            o.info = {'case': self.qual, 'op': 'call'}
            obs.append(o)
        self.paths_call = len(results)
        return obs


def _no_default(name):
    def fn(I, st, ca):
        raise Unsupported('%s() default construction is not part of the wrapper harness' % name)
    return fn


# =============================================================================================
# the other operations exposed on the wrapper
# =============================================================================================
def cacheinfo_fields():
    """field order of klepto.tools.CacheInfo, read from the real source"""
    import ast
    tree, sha, _ = intake.load('tools.py')
    for n in tree.body:
        if isinstance(n, ast.Assign) and any(isinstance(t, ast.Name) and t.id == 'CacheInfo' for t in n.targets):
            c = n.value
            if isinstance(c, ast.Call) and len(c.args) == 2 and isinstance(c.args[1], (ast.List, ast.Tuple)):
                names = [e.value for e in c.args[1].elts if isinstance(e, ast.Constant)]
                if len(names) == len(c.args[1].elts):
                    return names, sha
            if isinstance(c, ast.Call) and len(c.args) == 2 and isinstance(c.args[1], ast.Constant):
                return c.args[1].value.replace(',', ' ').split(), sha
    raise Unsupported('cannot read the field list of tools.CacheInfo')


def _mk_ob(obs, fn, s, path, case, op):
    def ob(prop, clause, goal, pc=None):
        if isinstance(goal, bool):
            goal = z3.BoolVal(goal)
        obs.append(Obligation('%s/%s' % (fn, clause), s.pc if pc is None else pc, goal, kind='clause', prop=prop,
                              path=path, func=fn, info={'case': case.qual, 'op': op}))
    return ob


def _collect_loops(case, I, obs, op):
    for o in I.obligations:
        o.prop = o.prop or 'INV'
        o.info = {'case': case.qual, 'op': op}
        obs.append(o)
    I.obligations = []


def obligations_key_lookup(case, which):
    """key(*a, **k) returns exactly the key the wrapper stores under; lookup returns the resident
    value or raises KeyError; neither evaluates the function nor changes anything  [C18]"""
    I = case.I
    f = case.ops.get(which)
    fn = '%s.%s' % (case.qual, which)
    obs = []
    if not isinstance(f, ClosureV):
        obs.append(Obligation(fn + '/exposed', [], z3.BoolVal(False), prop='C18', func=fn, path='',
                              info={'case': case.qual, 'op': which}))
        return obs
    st, pre = case.havoc()
    a0, k0 = z3.Const('args', Val), z3.Const('kwds', Val)
    st.assume(*case.call_assumptions(a0, k0))
    case.extra[which] = {'pre': pre, 'a0': a0, 'k0': k0}
    I.cur_func = fn
    I.fn_pre = pre
    I.obligations = []
    key, kd, kexcs = case.key_terms(a0, k0)
    H = Hashable(key)

    def unknown_callee(name, I_, st_, ca):
        # key()/lookup() hand the user function to a function that has no contract here: nothing says it does not call it
        # (klepto._inspect.isvalid does, for callables it cannot inspect).  The callee may evaluate, return anything, or raise.
        if not any(v is case.uf for v in list(ca.pos) + list(ca.kw.values())):
            return None
        s2 = st_.fork()
        s2.events.append(('user', None, None, 'return'))
        s2.labels = s2.labels + ['unknown-callee:' + name]
        return [(s2, Opaque(fresh('unknown_result', Val)))]
    I.unmodelled_hook = unknown_callee
    try:
        results = case.frame_guard(st, I.call(st, f, CallArgs([], {}, Opaque(a0), Opaque(k0))))
    finally:
        I.unmodelled_hook = None
    for (s, res) in results:
        post = Snap(case, s)
        path = '/'.join(s.labels) or 'straight'
        ob = _mk_ob(obs, fn, s, path, case, which)
        users = [e for e in s.events if e[0] == 'user']
        ob('C18', 'never_evaluates', len(users) == 0)
        ob('C18', 'frame.archive_binding', case.binding_ok(pre, post))
        for (nm, g) in case.same_state(pre, post):
            ob('C18', 'modifies_nothing[%s]' % nm, g)
        normal = not isinstance(res, Exc)
        if which == 'key':
            if normal:
                ob('C18', 'returns_storage_key', z3.And(kd, res.term == key) if isinstance(res, Opaque) else False)
            else:
                ob('C18', 'raises_only_keygen_errors', z3.Not(kd) if any(res.term.eq(t) for t in kexcs) else False)
        else:
            if normal:
                ob('C18', 'returns_resident_value', z3.And(kd, H, pre.mem.dom[key], res.term == pre.mem.val[key])
                   if isinstance(res, Opaque) else False)
            else:
                if any(res.term.eq(t) for t in kexcs):
                    ob('C18', 'raises', z3.Not(kd))
                elif res.kind == 'KeyError':
                    ob('C18', 'raises', z3.And(kd, H, z3.Not(pre.mem.dom[key])))
                elif res.kind == 'TypeError':
                    ob('C18', 'raises', z3.And(kd, z3.Not(H)))
                else:
                    ob('C18', 'raises', False)
    _collect_loops(case, I, obs, which)
    return obs


def obligations_info(case):
    I = case.I
    fn = '%s.info' % case.qual
    obs = []
    f = case.ops.get('info')
    if not isinstance(f, ClosureV):
        obs.append(Obligation(fn + '/exposed', [], z3.BoolVal(False), prop='C15', func=fn, path='',
                              info={'case': case.qual, 'op': 'info'}))
        return obs
    names, _ = cacheinfo_fields()
    st, pre = case.havoc()
    case.extra['info'] = {'pre': pre}
    I.cur_func = fn
    I.fn_pre = pre
    for (s, res) in case.frame_guard(st, I.call(st, f, CallArgs())):
        post = Snap(case, s)
        path = '/'.join(s.labels) or 'straight'
        ob = _mk_ob(obs, fn, s, path, case, 'info')
        for (nm, g) in case.same_state(pre, post):
            ob('C15', 'modifies_nothing[%s]' % nm, g)
        if isinstance(res, Exc) or not isinstance(res, TupleV) or len(res.items) != len(names) or \
                sorted(names) != ['hit', 'load', 'maxsize', 'miss', 'size']:
            ob('C15', 'fields', False)
            continue
        got = dict(zip(names, res.items))
        want = {'hit': pre.stats[0], 'miss': pre.stats[1], 'load': pre.stats[2], 'size': pre.mem.size}
        for nm, t in want.items():
            v = got[nm]
            ob('C15', 'field.%s' % nm, (v.term == t) if isinstance(v, IntV) else False)
        v = got['maxsize']
        if case.policy == 'no':
            ob('C15', 'field.maxsize', (v.term == 0) if isinstance(v, IntV) else False)
        elif case.policy == 'inf':
            ob('C15', 'field.maxsize', isinstance(v, NoneV))
        else:
            ob('C15', 'field.maxsize', (v.term == case.M) if isinstance(v, IntV) else False)
    _collect_loops(case, I, obs, 'info')
    return obs


def obligations_clear(case):
    """clear(keepstats): mem' = {}, bookkeeping emptied, stats zeroed unless keepstats,
    archives untouched, Inv  [C15, C02]"""
    I = case.I
    fn = '%s.clear' % case.qual
    obs = []
    f = case.ops.get('clear')
    if not isinstance(f, ClosureV):
        obs.append(Obligation(fn + '/exposed', [], z3.BoolVal(False), prop='C15', func=fn, path='',
                              info={'case': case.qual, 'op': 'clear'}))
        return obs
    for mode in ('default', 'positional', 'keyword'):
        st, pre = case.havoc()
        keep = z3.Const('keepstats', BOOL)
        I.cur_func = fn
        I.fn_pre = pre
        if mode == 'default':
            ca = CallArgs()
            keepv = z3.BoolVal(False)
        elif mode == 'positional':
            ca = CallArgs([BoolV(keep)])
            keepv = keep
        else:
            ca = CallArgs([], {'keepstats': BoolV(keep)})
            keepv = keep
        case.extra['clear:' + mode] = {'pre': pre, 'keep': keep, 'mode': mode}
        for (s, res) in case.frame_guard(st, I.call(st, f, ca)):
            post = Snap(case, s)
            path = mode + '/' + '/'.join(s.labels)
            ob = _mk_ob(obs, fn, s, path, case, 'clear:' + mode)
            x = x_()
            ob('C15', 'returns_normally', not isinstance(res, Exc))
            ob('C15', 'empties_memory', z3.And(post.mem.size == 0, forall([x], z3.Not(post.mem.dom[x]))))
            if post.stats is None:
                ob('C15', 'stats.shape', False)
            else:
                ob('C15', 'stats.zeroed_unless_kept', z3.And(*[
                    t1 == z3.If(keepv, t0, 0) for t0, t1 in zip(pre.stats, post.stats)]))
            ob('C08', 'archives_untouched', z3.And(case.binding_ok(pre, post), map_eq(pre.A, post.A),
                                                    map_eq(pre.S, post.S)))
            if post.q is not None:
                ob('C15', 'bookkeeping_emptied[queue]', post.q.hi == post.q.lo)
            if post.C is not None:
                ob('C15', 'bookkeeping_emptied[counter]', z3.And(post.C.size == 0,
                                                                 forall([x], z3.Not(post.C.dom[x]))))
            for (nm, g) in case.inv(post):
                ob('INV', 'inv.%s' % nm, g)
    _collect_loops(case, I, obs, 'clear')
    return obs


def obligations_archive(case):
    """archive(obj): A' = the archive of obj (requires its contents to satisfy Inv_val); mem and
    bookkeeping unchanged; Inv"""
    I = case.I
    fn = '%s.archive' % case.qual
    obs = []
    f = case.ops.get('archive')
    if not isinstance(f, ClosureV):
        obs.append(Obligation(fn + '/exposed', [], z3.BoolVal(False), prop='C08', func=fn, path='',
                              info={'case': case.qual, 'op': 'archive'}))
        return obs
    for mode in ('archive-object', 'cache-object'):
        st, pre = case.havoc()
        I.cur_func = fn
        I.fn_pre = pre
        x = x_()
        N = ArchiveObj.symbolic('N', role='new')
        n_ref = st.alloc(N)
        st.assume(*N.facts())
        st.assume(forall([x], z3.Implies(N.dom[x], z3.And(Fok(x), N.val[x] == Gval(x))), patterns=[N.dom[x]]))
        se = case.sentinel_term()
        if se is not None:
            st.assume(z3.Not(N.dom[se]))
        if mode == 'archive-object':
            arg = n_ref
        else:
            other = DictObj.symbolic('other', 'Val', case.kcls, role='othercache')
            other.attrs = {'__archive__': n_ref, '__swap__': st.alloc(ArchiveObj.symbolic('OS', role='otherswap'))}
            arg = st.alloc(other)
            st.assume(*other.facts())
        for (s, res) in case.frame_guard(st, I.call(st, f, CallArgs([arg]))):
            post = Snap(case, s)
            path = mode + '/' + '/'.join(s.labels)
            ob = _mk_ob(obs, fn, s, path, case, 'archive')
            ob('C08', 'returns_normally', not isinstance(res, Exc))
            ob('C08', 'binds_given_archive', post.a_ref == n_ref)
            ob('C08', 'memory_unchanged', map_eq(pre.mem, post.mem))
            ob('C08', 'given_archive_contents_unchanged', map_eq(N, post.A))
            for (nm, g) in case.same_state(pre, post):
                if nm in ('stats', 'queue', 'counter'):
                    ob('C08', 'frame[%s]' % nm, g)
            for (nm, g) in case.inv(post):
                ob('INV', 'inv.%s' % nm, g)
    _collect_loops(case, I, obs, 'archive')
    return obs


def obligations_management(case):
    """load/dump/archived are the cache object's own methods (checked against the interface),
    and each of them preserves Inv (Layer 2: over the contract of klepto.archives.cache)"""
    I = case.I
    obs = []
    fnq = '%s.__call__' % case.qual
    st0 = case.st0
    for nm in ('load', 'dump', 'archived'):
        v = case.ops.get(nm)
        ok = isinstance(v, BoundV) and v.recv == case.cache_ref and v.name == nm
        obs.append(Obligation('%s/interface.%s_is_cache_method' % (fnq, nm), [], z3.BoolVal(ok), prop='C18',
                              func=fnq, path='', info={'case': case.qual, 'op': 'interface'}))
    w = case.ops.get('__wrapped__')
    obs.append(Obligation('%s/interface.__wrapped__' % fnq, [], z3.BoolVal(w is case.uf), prop='C18',
                          func=fnq, path='', info={'case': case.qual, 'op': 'interface'}))
    g = case.ops.get('__cache__')
    okc = False
    if isinstance(g, ClosureV):
        r = I.call(st0.fork(), g, CallArgs())
        okc = len(r) == 1 and r[0][1] == case.cache_ref
    obs.append(Obligation('%s/interface.__cache__' % fnq, [], z3.BoolVal(okc), prop='C18',
                          func=fnq, path='', info={'case': case.qual, 'op': 'interface'}))
    # Init => Inv  (fresh bookkeeping, zero statistics)
    init = Snap(case, st0)
    pc0 = list(st0.pc)
    se = case.sentinel_term()
    if se is not None:
        # freshness: an object allocated by the prologue is not a key of a container that existed before
        pc0 += [z3.Not(init.mem.dom[se]), z3.Not(init.A.dom[se]), z3.Not(init.S.dom[se])]
    for (nm, gl) in case.inv(init):
        if nm.startswith('Inv_val'):
            continue        # contents of a user-supplied cache object: precondition (ownership)
        obs.append(Obligation('%s/init.%s' % (fnq, nm), pc0, gl, prop='INV', func=fnq, path='init',
                              info={'case': case.qual, 'op': 'init'}))
    if init.stats is not None:
        obs.append(Obligation('%s/init.stats_zero' % fnq, st0.pc, z3.And(*[t == 0 for t in init.stats]),
                              prop='C15', func=fnq, path='init', info={'case': case.qual, 'op': 'init'}))
    # management operations preserve Inv
    k1 = Opaque(z3.Const('k1', Val))
    k2 = Opaque(z3.Const('k2', Val))
    flag = BoolV(z3.Const('flag', BOOL))
    se = case.sentinel_term()
    calls = [('load()', 'load', []), ('load(k)', 'load', [k1]), ('load(k1,k2)', 'load', [k1, k2]),
             ('dump()', 'dump', []), ('dump(k)', 'dump', [k1]), ('archived(flag)', 'archived', [flag])]
    for (label, meth, args) in calls:
        st, pre = case.havoc()
        fn = '%s.%s' % (case.qual, label)
        for (s, res) in I.call_method(st, case.cache_ref, meth, CallArgs(args)):
            post = Snap(case, s)
            path = '/'.join(s.labels)
            ob = _mk_ob(obs, fn, s, path, case, label)
            for (nm, gl) in case.inv(post):
                ob('INV', 'inv.%s' % nm, gl)
            for (nm, gl) in case.same_state(pre, post):
                if nm in ('stats', 'queue', 'counter'):
                    ob('C08', 'frame[%s]' % nm, gl)
    return obs


def obligations_rounding(case):
    """__init__: the key path rounds with simple_round(tol) unless deep, then with deep_round(tol); the rounded
    function is the identity pair function (args, kwds)  [C12]"""
    I = case.I
    obs = []
    fn = '%s.__init__' % case.qual
    for deep in (False, True):
        case.round_kind = case.round_tol = None
        st = case.st_loaded.fork()
        st.assume(case.M >= 1, IGN != NoneC)
        cache_ref = kcache.new_cache(I, st, case.kcls)
        kw = {'cache': cache_ref, 'keymap': case.keymap, 'ignore': Opaque(IGN), 'tol': Opaque(TOL), 'deep': BoolV(deep)}
        if case.policy not in ('no', 'inf'):
            kw['maxsize'] = IntV(case.M)
            kw['purge'] = BoolV(case.P)
        I.cur_func = fn
        try:
            res = I.call(st, case.cls, CallArgs([], kw))
            ok = len(res) == 1 and not isinstance(res[0][1], Exc)
        except Unsupported as e:
            ok = False
        kind, tol = getattr(case, 'round_kind', None), getattr(case, 'round_tol', None)
        good = ok and kind == ('deep' if deep else 'simple') and isinstance(tol, Opaque) and tol.term.eq(TOL)
        obs.append(Obligation('%s/rounding.%s' % (fn, 'deep_round(tol)_when_deep' if deep else 'simple_round(tol)_by_default'),
                              [], z3.BoolVal(bool(good)), prop='C12', func=fn, path='deep=%s' % deep,
                              info={'case': case.qual, 'op': 'init'}))
    return obs


def obligations_call_reentrant(case):
    """wrapper(*args, **kwds) when the user function re-enters the cache (e.g. memoised recursion): the clauses that do
    not compare with the state before the call -- the result equals F(args), Inv is re-established, the size bound,
    only the listed exceptions escape -- hold for an arbitrary Inv state left behind by the inner calls"""
    case.reentrant = True
    try:
        obs = case.obligations_call()
    finally:
        case.reentrant = False
    keep = []
    for o in obs:
        nm = o.name.split('/', 1)[1] if '/' in o.name else o.name
        if o.prop == 'INV' or nm in ('result.equals_function', 'size.bound', 'raises.only_listed', 'raises.user_exception_propagates',
                                     'evals.at_most_once', 'evals.original_arguments', 'frame.archive_binding'):
            o.name = o.name.replace('.wrapper/', '.wrapper[re-entrant]/')
            o.func = o.func + '[re-entrant]'
            o.path = 're-entrant/' + (o.path or '')
            keep.append(o)
    return keep


def obligations_reduce(case):
    """decorator.__reduce__() followed by the reconstruction  cls(*args)  yields a decorator with an equal configuration
    (same maxsize, the same cache object, keymap, ignore, tol, deep, purge) -- klepto's part of the pickling round trip  [C20]"""
    I = case.I
    obs = []
    fn = '%s.__reduce__' % case.qual
    dobj = case.st0.get(case.decorator)
    state0 = dobj.attrs.get('__state__')
    items0 = dict(case.st0.get(state0).items) if isinstance(state0, Ref) else None

    def add(clause, ok, why=''):
        obs.append(Obligation('%s/%s' % (fn, clause), [], z3.BoolVal(bool(ok)), prop='C20', func=fn, path=why[:200],
                              info={'case': case.qual, 'op': 'reduce'}))
    try:
        I.cur_func = fn
        res = I.call_method(case.st0.fork(), case.decorator, '__reduce__', CallArgs([]))
        if len(res) != 1 or isinstance(res[0][1], Exc) or not isinstance(res[0][1], TupleV) or len(res[0][1].items) < 2:
            add('returns_class_and_arguments', False, repr([r for _, r in res]))
            return obs
        s1, r = res[0]
        rcls, rargs = r.items[0], r.items[1]
        add('returns_class_and_arguments', isinstance(rcls, ClassV) and rcls is case.cls and isinstance(rargs, TupleV))
        if not (isinstance(rcls, ClassV) and isinstance(rargs, TupleV)):
            return obs
        res2 = I.call(s1, rcls, CallArgs(list(rargs.items)))
        if len(res2) != 1 or isinstance(res2[0][1], Exc):
            add('reconstruction_succeeds', False, repr([x for _, x in res2]))
            return obs
        s2, obj = res2[0]
        o = s2.get(obj) if isinstance(obj, Ref) else None
        add('reconstruction_succeeds', o is not None and getattr(o, 'cls', None) is case.cls)
        st1 = o.attrs.get('__state__') if o is not None and hasattr(o, 'attrs') else None
        items1 = dict(s2.get(st1).items) if isinstance(st1, Ref) and s2.get(st1).kind == 'concdict' else None
        if items0 is None or items1 is None:
            add('configuration_recorded', False)
            return obs
        for k in sorted(items0):
            if k == 'roundargs':
                continue          # a fresh rounded_args function of the same kind (checked by rounding.(tol))
            a, b = items0[k], items1.get(k)
            same = False
            if type(a) is type(b):
                if isinstance(a, (IntV, BoolV, Opaque)):
                    same = z3.is_true(z3.simplify(a.term == b.term))
                elif isinstance(a, NoneV):
                    same = True
                else:
                    same = (a == b) or (a is b)
            add('equal_configuration[%s]' % k, same, '%r vs %r' % (a, b))
        add('same_rounding_kind', getattr(case, 'round_kind', None) in ('simple', 'deep'))
    except Unsupported as e:
        obs.append(Obligation(fn + '/supported', [], z3.BoolVal(False), prop='C20', func=fn, path=str(e)[:200],
                              info={'case': case.qual, 'op': 'reduce', 'unsupported': str(e)}))
    return obs


def obligations_new(case):
    """class instantiation, however maxsize is passed (positionally or by keyword): 0 -> the object decorates as no_cache,
    None -> as inf_cache, otherwise the configured bound is recorded; the object is always initialised  [C05]"""
    I = case.I
    obs = []
    fn = '%s.__new__' % case.qual
    if case.policy in ('no', 'inf'):
        return obs
    variants = [('positional 0', [IntV(0)], {}, 'no_cache'), ('keyword 0', [], {'maxsize': IntV(0)}, 'no_cache'),
                ('positional None', [NONE], {}, 'inf_cache'), ('keyword None', [], {'maxsize': NONE}, 'inf_cache'),
                ('positional M', [IntV(case.M)], {}, case.clsname), ('keyword M', [], {'maxsize': IntV(case.M)}, case.clsname),
                ('default', [], {}, case.clsname)]
    for (label, pos, kw, want) in variants:
        st = case.st_loaded.fork()
        st.assume(case.M >= 1, IGN != NoneC)
        cache_ref = kcache.new_cache(I, st, case.kcls)
        kw2 = dict(kw)
        kw2.update({'cache': cache_ref, 'keymap': case.keymap, 'ignore': Opaque(IGN), 'tol': Opaque(TOL), 'deep': BoolV(True)})
        I.cur_func = fn
        ok, why = False, ''
        forwarded = {}
        try:
            res = I.call(st, case.cls, CallArgs(list(pos), kw2))
            if not res or any(isinstance(r, Exc) for _, r in res):
                why = 'construction raises: %r' % ([r for _, r in res],)
            oks = []
            for (s1, obj) in ([] if why else res):       # (a fork into several paths: every one of them is checked)
                ok = False
                o = s1.get(obj) if isinstance(obj, Ref) else None
                cls = getattr(o, 'cls', None)
                state = o.attrs.get('__state__') if o is not None and hasattr(o, 'attrs') else None
                items = dict(s1.get(state).items) if isinstance(state, Ref) and s1.get(state).kind == 'concdict' else None
                if cls is None or cls.name != want:
                    why = 'instance of %s' % (cls.name if cls else obj,)
                elif items is None:
                    why = 'object was not initialised (no __state__)'
                else:
                    ms = items.get('maxsize')
                    if want == 'no_cache':
                        ok = isinstance(ms, IntV) and ms.concrete() == 0
                    elif want == 'inf_cache':
                        ok = isinstance(ms, NoneV)
                    elif label == 'default':
                        ok = isinstance(ms, IntV) and (ms.concrete() or 0) >= 1
                    else:
                        ok = isinstance(ms, IntV) and z3.is_true(z3.simplify(ms.term == case.M))
                    why = 'recorded maxsize is %r' % (ms,)
                    # whichever class the request is handed to, it gets the whole configuration
                    for (fld, want_v, owner) in (('cache', cache_ref, 'C08'), ('keymap', case.keymap, 'C09'), ('ignore', Opaque(IGN), 'C11'),
                                                 ('tol', Opaque(TOL), 'C12'), ('deep', BoolV(True), 'C12')):
                        got = items.get(fld)
                        if isinstance(want_v, Opaque):
                            same = isinstance(got, Opaque) and z3.eq(got.term, want_v.term)
                        elif isinstance(want_v, BoolV):
                            same = isinstance(got, BoolV) and z3.is_true(z3.simplify(got.term == want_v.term))
                        else:
                            same = got is want_v or got == want_v
                        prev = forwarded.get(fld, (True,))[0]
                        forwarded[fld] = (bool(same) and prev, owner, '%r recorded, %r given' % (got, want_v))
                oks.append(bool(ok))
            ok = bool(oks) and all(oks)
        except Unsupported as e:
            why = 'unsupported: %s' % e
        obs.append(Obligation('%s/dispatch[%s]' % (fn, label), [], z3.BoolVal(bool(ok)), prop='C05', func=fn, path=label + ' | ' + why,
                              info={'case': case.qual, 'op': 'new'}))
        for fld, (same, owner, txt) in sorted(forwarded.items()):
            obs.append(Obligation('%s/dispatch_forwards[%s]' % (fn, fld), [], z3.BoolVal(same), prop=owner, func=fn,
                                  path='%s | %s' % (label, txt), info={'case': case.qual, 'op': 'new'}))
    return obs


def all_obligations(case):
    obs = []
    obs += case.obligations_call()
    obs += obligations_key_lookup(case, 'key')
    obs += obligations_key_lookup(case, 'lookup')
    obs += obligations_info(case)
    obs += obligations_clear(case)
    obs += obligations_archive(case)
    obs += obligations_management(case)
    return obs


# =============================================================================================
# witness classes of known findings (DESIGN.md 3.9): a known finding names an obligation and a
# predicate over its inputs; the obligation is re-posed with that class excluded and must then
# discharge -- anything the solver still finds is a different violation.
# =============================================================================================
def _excl_no_cache_resident_archived(case, extra):
    """the listed finding is the RETRIEVAL path of no_cache (`result = cache[key]; cache.clear()`): the excluded class is
    'the call is answered by retrieval and some resident key is not archived'.  On the miss path nothing is excluded, so
    a miss that drops resident entries without a dump is still reported."""
    pre = extra['pre']
    x = x_()
    key, kd, _ = case.key_terms(extra['a0'], extra['k0'])
    retrieval = z3.And(kd, Hashable(key), z3.Or(pre.mem.dom[key], z3.And(z3.Not(pre.A.null), pre.A.dom[key])))
    return z3.Or(z3.Not(retrieval), forall([x], z3.Implies(pre.mem.dom[x], pre.A.dom[x]), patterns=[pre.mem.dom[x]]))


EXCLUSIONS = {
    # no_cache retrieval path: `result = cache[key]; cache.clear()` drops resident entries that
    # are not in the attached archive -> excluded class: some resident key is not archived
    'no_cache.resident_entry_not_in_archive': _excl_no_cache_resident_archived,
}
