"""Level-A part of C12: klepto.rounding.simple_round (the shallow default of every decorator) under contract.

The real `simple_round_factory(tol)` closure is executed symbolically for every call shape with <= 3 positional and <= 2
keyword arguments, all argument VALUES symbolic (so each shape is a complete proof over its inputs; the number of
arguments is bounded).  Clauses: the result is (args', kwds') of the same shape with  x' = round(x, tol)  exactly when
isinstance(x, float) and  x' is x  otherwise; the caller's tuple and dict are not modified.  `round` and `isinstance(.., float)`
are uninterpreted (Python's).  The decorator class: tol None => the function is entered with the original arguments.
"""
import itertools
import z3
from pyvc import intake
from pyvc.symex import (Val, BOOL, fresh, NoneC, Opaque, IntV, BoolV, NONE, NoneV, StrV, TupleV, Ref, FuncV, ClosureV, ClassV, Exc,
                        CallArgs, Unsupported, Obligation, State)
from pyvc.models import ConcDict, ListObj
from pyvc.builtins import Engine, Round, IsInst


def obligations():
    I = Engine()
    tree, sha, _ = intake.load('rounding.py')
    st = State()
    meid = I.load_module(st, 'klepto.rounding', tree)
    obs = []
    fac = st.lookup(meid, 'simple_round_factory')
    cls = st.lookup(meid, 'simple_round')
    fn = 'rounding:simple_round_factory.simple_round'
    if not isinstance(fac, ClosureV) or not isinstance(cls, ClassV):
        return [Obligation(fn + '/found', [], z3.BoolVal(False), prop='C12', func=fn, path='', info={'case': 'rounding', 'op': 'load'})], sha
    TOL = Opaque(z3.Const('tol', Val))
    flt = I.builtins['float']
    isfloat = lambda t: IsInst(t, I.class_id(flt))
    I.cur_func = fn
    r = I.call(st, fac, CallArgs([TOL]))
    if len(r) != 1 or not isinstance(r[0][1], ClosureV):
        return [Obligation(fn + '/factory_returns_function', [], z3.BoolVal(False), prop='C12', func=fn, path='', info={'case': 'rounding', 'op': 'factory'})], sha
    st1, rounder = r[0]
    for n in range(4):
        for names in ((), ('y',), ('y', 'z')):
            args = [Opaque(z3.Const('a%d' % i, Val)) for i in range(n)]
            kw = {nm: Opaque(z3.Const('k_' + nm, Val)) for nm in names}
            shape = '%d positional, keywords %r' % (n, list(names))
            s0 = st1.fork()
            kwref = s0.alloc(ConcDict(dict(kw)))
            try:
                outs = I.call(s0, rounder, CallArgs(list(args), {}, None, None) if not names else CallArgs(list(args), dict(kw)))
            except Unsupported as e:
                obs.append(Obligation(fn + '/supported', [], z3.BoolVal(False), prop='C12', func=fn, path='%s: %s' % (shape, e),
                                      info={'case': 'rounding', 'op': shape, 'unsupported': str(e)}))
                continue
            for (s, res) in outs:
                path = shape + ' | ' + ('/'.join(s.labels) or 'straight')

                def ob(clause, goal):
                    obs.append(Obligation('%s/%s' % (fn, clause), s.pc, goal if not isinstance(goal, bool) else z3.BoolVal(goal), prop='C12',
                                          func=fn, path=path, info={'case': 'rounding', 'op': shape}))
                if isinstance(res, Exc):
                    ob('never_raises', False)
                    continue
                ok = isinstance(res, TupleV) and len(res.items) == 2 and isinstance(res.items[0], TupleV) and isinstance(res.items[1], Ref)
                ob('returns_pair_of_tuple_and_dict', ok)
                if not ok:
                    continue
                ra, rk = res.items[0], s.get(res.items[1])
                ob('same_number_of_positionals', len(ra.items) == n)
                ob('same_keyword_names', isinstance(rk, ConcDict) and sorted(rk.items) == sorted(names))
                if len(ra.items) == n:
                    for i, (x, y) in enumerate(zip(args, ra.items)):
                        ob('positional[%d].rounded_iff_float' % i, (y.term == z3.If(isfloat(x.term), Round(x.term, TOL.term), x.term))
                           if isinstance(y, Opaque) else False)
                if isinstance(rk, ConcDict) and sorted(rk.items) == sorted(names):
                    for nm in names:
                        y = rk.items[nm]
                        ob('keyword[%s].rounded_iff_float' % nm, (y.term == z3.If(isfloat(kw[nm].term), Round(kw[nm].term, TOL.term), kw[nm].term))
                           if isinstance(y, Opaque) else False)
                ob('result_dict_is_a_new_object', isinstance(res.items[1], Ref))
    # the decorator: tol None disables rounding, otherwise the function receives the rounded arguments (by design)
    fn2 = 'rounding:simple_round.__call__.func'
    for tolv, label in ((NONE, 'tol=None'), (TOL, 'tol given')):
        s0 = st.fork()
        seen = []

        def user(I_, st_, ca, _seen=seen):
            _seen.append(ca)
            return [(st_, NONE)]
        try:
            I.cur_func = fn2
            r = I.call(s0, cls, CallArgs([tolv]))
            s1, dec = r[0]
            r = I.call_method(s1, dec, '__call__', CallArgs([FuncV('f', user)]))
            s2, func = r[0]
            a0, k0 = Opaque(z3.Const('a0', Val)), Opaque(z3.Const('k_y', Val))
            outs = I.call(s2, func, CallArgs([a0], {'y': k0}))
        except (Unsupported, IndexError) as e:
            obs.append(Obligation(fn2 + '/supported', [], z3.BoolVal(False), prop='C12', func=fn2, path='%s: %s' % (label, e),
                                  info={'case': 'rounding', 'op': label, 'unsupported': str(e)}))
            continue
        for (s, res) in outs:
            good = False
            if seen:
                ca = seen[-1]
                if label == 'tol=None':
                    good = (len(ca.pos) == 1 and ca.pos[0] is a0 and (ca.kw.get('y') is k0 or (ca.dstar is not None)))
                else:
                    good = len(ca.pos) == 1 or ca.star is not None
            obs.append(Obligation(fn2 + ('/tol_None_passes_original_arguments' if label == 'tol=None' else '/function_is_called_once'), s.pc,
                                  z3.BoolVal(bool(good) and len(seen) >= 1), prop='C12', func=fn2, path=label + ' | ' + '/'.join(s.labels),
                                  info={'case': 'rounding', 'op': label}))
            break
    return obs, sha


def obligations_reduce():
    """C20: X.__reduce__() of the three rounding decorators returns (X, (tol,)) with the very tolerance X was built with -- None (rounding
    disabled) included -- so  X(*args)  rebuilds the same rounding; the closure `func` that dill copies by value holds X in its cell."""
    I = Engine()
    tree, sha, _ = intake.load('rounding.py')
    st = State()
    meid = I.load_module(st, 'klepto.rounding', tree)
    obs = []
    TOL = Opaque(z3.Const('tol', Val))
    for clsname in ('deep_round', 'simple_round', 'shallow_round'):
        fn = 'rounding:%s.__reduce__' % clsname
        cls = st.lookup(meid, clsname)

        def add(clause, ok, why='', label=''):
            obs.append(Obligation('%s/%s' % (fn, clause), [], z3.BoolVal(bool(ok)), prop='C20', func=fn, path=(label + ' ' + why)[:200],
                                  info={'case': 'rounding', 'op': 'reduce'}))
        if not isinstance(cls, ClassV):
            add('found', False)
            continue
        for tolv, label in ((NONE, 'tol=None'), (TOL, 'tol given')):
            try:
                I.cur_func = fn
                r = I.call(st.fork(), cls, CallArgs([tolv]))
                if len(r) != 1 or isinstance(r[0][1], Exc):
                    add('construction_succeeds', False, repr([x for _, x in r]), label)
                    continue
                s1, dec = r[0]
                r = I.call_method(s1, dec, '__reduce__', CallArgs([]))
                if len(r) != 1 or isinstance(r[0][1], Exc):
                    add('returns_class_and_arguments', False, repr([x for _, x in r]), label)
                    continue
                res = r[0][1]
                ok = isinstance(res, TupleV) and len(res.items) == 2 and res.items[0] is cls and isinstance(res.items[1], TupleV)
                add('returns_class_and_arguments', ok, repr(res), label)
                if not ok:
                    continue
                args = res.items[1].items
                same = len(args) == 1 and ((isinstance(tolv, NoneV) and isinstance(args[0], NoneV)) or
                                           (isinstance(tolv, Opaque) and isinstance(args[0], Opaque) and z3.eq(args[0].term, tolv.term)))
                add('arguments_are_the_tolerance', same, repr(args), label)
                # and the reconstruction records that tolerance again
                r2 = I.call(r[0][0], cls, CallArgs(list(args)))
                if len(r2) != 1 or isinstance(r2[0][1], Exc):
                    add('reconstruction_succeeds', False, repr([x for _, x in r2]), label)
                    continue
                s3, dec2 = r2[0]
                r3 = I.call_method(s3, dec2, '__reduce__', CallArgs([]))
                add('reconstruction_reduces_alike', len(r3) == 1 and repr(r3[0][1]) == repr(res), '', label)
            except Unsupported as e:
                obs.append(Obligation(fn + '/supported', [], z3.BoolVal(False), prop='C20', func=fn, path='%s: %s' % (label, e),
                                      info={'case': 'rounding', 'op': label, 'unsupported': str(e)}))
    return obs, sha
