"""Level-A part of C13 (and of the storage half of C03/C04) for klepto._archives.file_archive with serialized=True:
the REAL `__save__` and `__asdict__` bodies are executed symbolically over an *assumed contract of the file system and of
the serialisers*, and every effect they have on the file system is recorded.

Assumed contract (trusted; this is what the bounded C13 check exercises with killed processes):
  open(p, 'w'|'wb')      creates or truncates p (one effect); the empty file does not decode
  pik.dump(obj, f)       json / dill: either the encoder rejects a value (never for the empty dict literal) -- it raises an exception that is not an OSError,
                         having written some prefix (an undecodable content) -- or it writes the text in two effects: an
                         undecodable prefix, then the complete encoding c with  Dec(c) = obj
  buffering              what was written reaches the file at the write at the earliest, at flush/close at the latest: both
                         extremes are explored (a rename issued before the close moves a file that may still be empty)
  pik.load(f)            returns a fresh dict Dec(c) when the content c decodes, raises otherwise
  open(p, 'r'|'rb')      FileNotFoundError when p does not exist
  os.replace/os.rename   atomic: the target has the source's content and the source is gone, in ONE effect
  os.remove/os.unlink    one effect
  os.path.join/dirname/abspath, hash(random(), 'md5'), str + str: uninterpreted; a name built as join(d, TEMP + h) is a
                         *temporary name* and the archive's own file name is not one (precondition)
  no operation fails with an I/O error (disk full, permissions): OSError is raised only for a missing file

Read(FS, F) = Dec(FS.data[F]) if F exists and its content decodes, else {}  -- what `__asdict__` returns (proved below).

Obligations, for protocol None (dill) and 'json', memo a symbolic dict M, FS0 arbitrary with Read(FS0, F) = OLD:
  C13  __save__/every_crash_point_reads_old_or_new   after EVERY recorded effect i: Read(FS_i, F) = OLD or = M
  C13  __save__/no_window_without_archive            after every effect the archive file exists if it existed before
  C03  __save__/completed_save_stores_memo           normal return: Read(FS', F) = M
  C03  __save__/rejected_save_changes_nothing        the encoder's exception propagates and Read(FS', F) = OLD
  C03  __save__/other_files_untouched                every path that is neither F nor a temporary name is unchanged
  C03  __save__(None) has no effect
  C03  __asdict__/returns_fresh_dict_of_contents, __asdict__/no_effect
"""
import z3
from pyvc import intake
from pyvc.symex import (forall, Val, INT, BOOL, fresh, NoneC, Opaque, IntV, BoolV, NONE, NoneV, StrV, TupleV, Ref, FuncV, ModuleV,
                        ClosureV, ClassV, Exc, CallArgs, Unsupported, Obligation, State, ExcIsInst, EXC_IDS)
from pyvc.models import DictObj, ConcDict, ValSet, ValMap
from pyvc.builtins import Engine
from .cache_class import map_eq, x_

IsEnc = z3.Function('FsIsEnc', Val, BOOL)
DecDom = z3.Function('FsDecDom', Val, ValSet)
DecVal = z3.Function('FsDecVal', Val, ValMap)
DecSize = z3.Function('FsDecSize', Val, INT)
Join = z3.Function('FsJoin', Val, Val, Val)
Dirname = z3.Function('FsDirname', Val, Val)
Abspath = z3.Function('FsAbspath', Val, Val)
StrCat = z3.Function('FsStrCat', Val, Val, Val)
IsTempName = z3.Function('FsIsTempName', Val, BOOL)
PathSet = z3.ArraySort(Val, BOOL)
PathMap = z3.ArraySort(Val, Val)
EMPTY_FILE = z3.Const('fs_empty_file', Val)


class Fs(object):
    """abstract file system: which paths exist and what they hold"""
    __slots__ = ('exists', 'data')

    def __init__(self, exists, data):
        self.exists, self.data = exists, data


class FileObj(object):
    """an open file.  Python buffers writes: what has been written reaches the file system at the write at the earliest and at
    flush/close at the latest -- both extremes are explored (`lazy`: the pending contents are applied on flush/close)"""
    kind = 'file'

    def __init__(self, path, mode, lazy=False, pending=()):
        self.path, self.mode, self.lazy, self.pending = path, mode, lazy, tuple(pending)
        self.cls = None
        self.attrs = {}

    def copy(self):
        return self

    def call_method(self, I, st, recv, name, ca, node):
        if name == '__enter__':
            return [(st, recv)]
        if name in ('__exit__', 'close', 'flush'):
            s = st
            for (label, content) in self.pending:
                fs = _fs(s)
                s = _effect(s, label + '-at-close', Fs(fs.exists, z3.Store(fs.data, self.path, content)))
            if self.pending:
                s.put(recv, FileObj(self.path, self.mode, self.lazy, ()))
            return [(s, NONE)]
        return None


def _fs(st):
    return st.ghost['fs']


def _effect(st, label, fs):
    s = st.fork()
    s.ghost = dict(s.ghost)
    s.ghost['fs'] = fs
    s.ghost['fs_trace'] = s.ghost.get('fs_trace', ()) + ((label, fs),)
    return s


class FsCase(object):
    def __init__(self):
        self.unsupported = None
        try:
            self._setup()
        except Unsupported as e:
            self.unsupported = str(e)

    def _setup(self):
        I = self.I = Engine()
        st = State()
        abc_tree, _, _ = intake.load('_abc.py')
        m0 = I.load_module(st, 'klepto._abc', abc_tree)
        abc = st.lookup(m0, 'archive')
        for k in (('._abc', 'archive'), ('klepto._abc', 'archive'), ('_abc', 'archive')):
            I.externals[k] = abc
        I.externals[('random', 'random')] = FuncV('random', lambda I_, s, ca: [(s, Opaque(fresh('rnd', Val)))])
        I.externals[('klepto.crypto', 'hash')] = FuncV('hash', lambda I_, s, ca: [(s, Opaque(fresh('digest', Val)))])
        I.builtins['open'] = FuncV('open', self.m_open)
        I.attr_hooks['ModuleV'] = self.module_attr
        I.binop_hook = self.binop
        tree, self.sha, _ = intake.load('_archives.py')
        meid = I.load_module(st, 'klepto._archives', tree)
        self.fa = st.lookup(meid, 'file_archive')
        if not isinstance(self.fa, ClassV) or self.fa.node is None:
            raise Unsupported('class file_archive not found')
        temp = st.lookup(meid, 'TEMP')
        if not isinstance(temp, StrV):
            raise Unsupported('_archives.TEMP is not a string constant')
        self.temp = temp
        self.st0 = st

    # ---- models --------------------------------------------------------------------------------------------
    def module_attr(self, I, st, o, name, node):
        full = '%s.%s' % (o.name, name)
        if full in ('os.path',):
            return [(st, ModuleV(full))]
        table = {'os.path.join': self.m_join, 'os.path.dirname': self.m_un(Dirname), 'os.path.abspath': self.m_un(Abspath),
                 'os.path.realpath': self.m_un(Abspath), 'os.path.exists': self.m_exists, 'os.path.isfile': self.m_exists,
                 'os.replace': self.m_replace, 'os.rename': self.m_replace, 'os.renames': self.m_replace, 'shutil.move': self.m_replace,
                 'os.remove': self.m_remove, 'os.unlink': self.m_remove,
                 'json.dump': self.m_dump, 'dill.dump': self.m_dump, 'json.load': self.m_load, 'dill.load': self.m_load}
        if full in table:
            return [(st, FuncV(full, table[full]))]
        return None

    def binop(self, I, st, op, a, b, node):
        import ast
        if isinstance(op, ast.Add) and isinstance(a, (StrV, Opaque)) and isinstance(b, (StrV, Opaque)):
            return [(st, Opaque(StrCat(I.to_val(a), I.to_val(b))))]
        return None

    def m_un(self, f):
        def fn(I, st, ca):
            if not ca.plain() or len(ca.pos) != 1 or ca.kw:
                raise Unsupported('path function called with %r' % (ca,))
            return [(st, Opaque(f(I.to_val(ca.pos[0]))))]
        return fn

    def m_join(self, I, st, ca):
        if not ca.plain() or len(ca.pos) != 2 or ca.kw:
            raise Unsupported('os.path.join with %r' % (ca,))
        return [(st, Opaque(Join(I.to_val(ca.pos[0]), I.to_val(ca.pos[1]))))]

    def m_exists(self, I, st, ca):
        if not ca.plain() or len(ca.pos) != 1 or ca.kw:
            raise Unsupported('os.path.exists with %r' % (ca,))
        return [(st, BoolV(_fs(st).exists[I.to_val(ca.pos[0])]))]

    def m_open(self, I, st, ca):
        if not ca.plain() or len(ca.pos) != 2 or ca.kw or not isinstance(ca.pos[1], StrV):
            raise Unsupported('open() with %r' % (ca,))
        p, mode = I.to_val(ca.pos[0]), ca.pos[1].s
        fs = _fs(st)
        if mode.startswith('r'):
            out = []
            for (s, there) in I.branch(st, fs.exists[p], 'file-exists', 'file-missing'):
                if there:
                    out.append((s, s.alloc(FileObj(p, mode))))
                else:
                    out.append((s, Exc('FileNotFoundError', origin='open for reading')))
            return out
        if mode.startswith('w'):
            out = []
            for (s0, lazy) in I.branch(st, fresh('writes_buffered_until_close', BOOL), 'buffered', 'unbuffered'):
                s = _effect(s0, 'open-for-write', Fs(z3.Store(fs.exists, p, True), z3.Store(fs.data, p, EMPTY_FILE)))
                out.append((s, s.alloc(FileObj(p, mode, bool(lazy)))))
            return out
        raise Unsupported('open mode %r' % mode)

    def _dictobj(self, st, v):
        if not isinstance(v, Ref):
            raise Unsupported('dump of %r' % (v,))
        m = st.get(v)
        if isinstance(m, ConcDict) and not m.items:
            m = DictObj.empty('Val')
        if not isinstance(m, DictObj):
            raise Unsupported('dump of a non-dict object')
        return m

    def m_dump(self, I, st, ca):
        if len(ca.pos) != 2 or ca.star is not None:
            raise Unsupported('pik.dump with %r' % (ca,))
        m = self._dictobj(st, ca.pos[0])
        f = st.get(ca.pos[1]) if isinstance(ca.pos[1], Ref) else None
        if not isinstance(f, FileObj) or not f.mode.startswith('w'):
            raise Unsupported('pik.dump into %r' % (ca.pos[1],))
        out = []
        raw = st.get(ca.pos[0])
        always = isinstance(raw, ConcDict) and not raw.items          # the empty dict literal: every encoder accepts it
        for (s, good) in ([(st, True)] if always else I.branch(st, fresh('encodes', BOOL), 'encodes', 'encoder-rejects')):
            fs = _fs(s)
            part = fresh('partial_text', Val)
            c = fresh('text', Val)
            if f.lazy:
                # nothing reaches the file system before flush/close
                s1 = s.fork()
                s1.assume(z3.Not(IsEnc(part)))
                if not good:
                    s1.put(ca.pos[1], FileObj(f.path, f.mode, True, f.pending + (('write-part', part),)))
                    e = Exc(None, origin='encoder rejects a value')
                    s1.assume(z3.Not(ExcIsInst(e.term, EXC_IDS['OSError'])))
                    out.append((s1, e))
                    continue
                s1.assume(IsEnc(c), DecDom(c) == m.dom, DecVal(c) == m.val, DecSize(c) == m.size)
                s1.put(ca.pos[1], FileObj(f.path, f.mode, True, f.pending + (('write-part', part), ('write-all', c))))
                out.append((s1, NONE))
                continue
            s1 = _effect(s, 'write-part', Fs(fs.exists, z3.Store(fs.data, f.path, part)))
            s1.assume(z3.Not(IsEnc(part)))
            if not good:
                e = Exc(None, origin='encoder rejects a value')
                s1.assume(z3.Not(ExcIsInst(e.term, EXC_IDS['OSError'])))
                out.append((s1, e))
                continue
            s2 = _effect(s1, 'write-all', Fs(fs.exists, z3.Store(fs.data, f.path, c)))
            s2.assume(IsEnc(c), DecDom(c) == m.dom, DecVal(c) == m.val, DecSize(c) == m.size)
            out.append((s2, NONE))
        return out

    def m_load(self, I, st, ca):
        if not ca.plain() or len(ca.pos) != 1 or ca.kw:
            raise Unsupported('pik.load with %r' % (ca,))
        f = st.get(ca.pos[0]) if isinstance(ca.pos[0], Ref) else None
        if not isinstance(f, FileObj) or not f.mode.startswith('r'):
            raise Unsupported('pik.load from %r' % (ca.pos[0],))
        c = _fs(st).data[f.path]
        out = []
        for (s, ok) in I.branch(st, IsEnc(c), 'decodes', 'undecodable'):
            if ok:
                d = DictObj(DecDom(c), DecVal(c), DecSize(c), 'Val', None, {}, None)
                s2 = s.fork()
                s2.assume(*d.facts())
                out.append((s2, s2.alloc(d)))
            else:
                out.append((s, Exc(None, origin='decoder fails')))
        return out

    def m_replace(self, I, st, ca):
        if not ca.plain() or len(ca.pos) != 2 or ca.kw:
            raise Unsupported('os.replace with %r' % (ca,))
        a, b = I.to_val(ca.pos[0]), I.to_val(ca.pos[1])
        fs = _fs(st)
        out = []
        for (s, there) in I.branch(st, fs.exists[a], 'src-exists', 'src-missing'):
            if not there:
                out.append((s, Exc('FileNotFoundError', origin='os.replace')))
                continue
            ex = z3.Store(z3.Store(fs.exists, a, False), b, True)
            out.append((_effect(s, 'replace', Fs(ex, z3.Store(fs.data, b, fs.data[a]))), NONE))
        return out

    def m_remove(self, I, st, ca):
        if not ca.plain() or len(ca.pos) != 1 or ca.kw:
            raise Unsupported('os.remove with %r' % (ca,))
        a = I.to_val(ca.pos[0])
        fs = _fs(st)
        out = []
        for (s, there) in I.branch(st, fs.exists[a], 'victim-exists', 'victim-missing'):
            if not there:
                out.append((s, Exc('FileNotFoundError', origin='os.remove')))
                continue
            out.append((_effect(s, 'remove', Fs(z3.Store(fs.exists, a, False), fs.data)), NONE))
        return out

    # ---- a file_archive handle on an arbitrary file system ------------------------------------------------------
    def fresh(self, protocol):
        I = self.I
        st = self.st0.fork()
        F = I.str_const('store.arc')
        fs = Fs(z3.Const('fs_exists0', PathSet), z3.Const('fs_data0', PathMap))
        a, b = z3.Const('fs_a', Val), z3.Const('fs_b', Val)
        st.assume(z3.Not(IsEnc(EMPTY_FILE)), z3.Not(IsTempName(F)),
                  forall([a, b], IsTempName(Join(a, StrCat(I.str_const(self.temp.s), b))),
                         patterns=[Join(a, StrCat(I.str_const(self.temp.s), b))]))
        c = z3.Const('fs_c', Val)
        x = x_()
        # decodable contents decode to well-formed dicts
        st.assume(forall([c], z3.Implies(IsEnc(c), DecSize(c) >= 0), patterns=[IsEnc(c)]),
                  forall([c], z3.Implies(z3.And(IsEnc(c), DecSize(c) == 0), forall([x], z3.Not(DecDom(c)[x]))), patterns=[DecSize(c)]))
        inst = DictObj.empty('Val', cls=self.fa)
        state = st.alloc(ConcDict({'id': StrV('store.arc'), 'serialized': BoolV(True), 'protocol': protocol}))
        inst.attrs = {'__state__': state}
        ref = st.alloc(inst)
        st.ghost = dict(st.ghost)
        st.ghost['fs'] = fs
        st.ghost['fs_trace'] = ()
        return st, ref, F, fs


def read_is(fs, F, D):
    """Read(fs, F) = D  (D: DictObj)"""
    c = fs.data[F]
    x = x_()
    stored = z3.And(fs.exists[F], IsEnc(c))
    same = z3.And(DecSize(c) == D.size, forall([x], z3.And(DecDom(c)[x] == D.dom[x], z3.Implies(D.dom[x], DecVal(c)[x] == D.val[x]))))
    empty = z3.And(D.size == 0, forall([x], z3.Not(D.dom[x])))
    return z3.If(stored, same, empty)


def obligations():
    case = FsCase()
    sha = getattr(case, 'sha', None)
    obs = []
    if case.unsupported:
        return [Obligation('_archives:file_archive.__save__/supported', [], z3.BoolVal(False), prop='C13', func='_archives:file_archive.__save__',
                           path=case.unsupported[:200], info={'case': 'fs', 'op': 'setup', 'unsupported': case.unsupported})], sha
    I = case.I
    for protocol, plabel in ((NONE, 'protocol=None (dill)'), (StrV('json'), "protocol='json'")):
        # ------------------------------------------------------------------------------------ __save__(M)
        fn = '_archives:file_archive.__save__'
        st, ref, F, fs0 = case.fresh(protocol)
        OLD = DictObj.symbolic('old', 'Val')
        M = DictObj.symbolic('memo', 'Val')
        st.assume(*(OLD.facts() + M.facts()))
        st.assume(read_is(fs0, F, OLD))
        mref = st.alloc(M)
        I.cur_func = fn
        try:
            outs = I.call_method(st.fork(), ref, '__save__', CallArgs([mref]))
            none_outs = I.call_method(st.fork(), ref, '__save__', CallArgs([NONE]))
        except Unsupported as e:
            obs.append(Obligation(fn + '/supported', [], z3.BoolVal(False), prop='C13', func=fn, path='%s: %s' % (plabel, e),
                                  info={'case': 'fs', 'op': plabel, 'unsupported': str(e)}))
            continue
        p = z3.Const('fs_p', Val)
        for (s, r) in outs:
            path = plabel + ' | ' + ('/'.join(s.labels) or 'straight')
            fs1 = _fs(s)
            trace = s.ghost.get('fs_trace', ())

            def ob(prop, clause, goal, _s=s, _path=path):
                obs.append(Obligation('%s/%s' % (fn, clause), _s.pc, goal if not isinstance(goal, bool) else z3.BoolVal(goal), prop=prop, func=fn,
                                      path=_path, info={'case': 'fs', 'op': plabel}))
            ob('C13', 'has_effects', len(trace) >= 1)
            for i, (label, fsi) in enumerate(trace):
                ob('C13', 'every_crash_point_reads_old_or_new', z3.Or(read_is(fsi, F, OLD), read_is(fsi, F, M)), _path='%s | after effect %d (%s)' % (path, i, label))
                ob('C13', 'no_window_without_archive', z3.Implies(fs0.exists[F], fsi.exists[F]), _path='%s | after effect %d (%s)' % (path, i, label))
            if 'encoder-rejects' in s.labels:
                ob('C03', 'rejected_save_changes_nothing', z3.And(z3.BoolVal(isinstance(r, Exc) and r.origin == 'encoder rejects a value'), read_is(fs1, F, OLD)))
            else:
                ob('C03', 'completed_save_stores_memo', z3.And(z3.BoolVal(isinstance(r, NoneV)), read_is(fs1, F, M)))
            ob('C03', 'other_files_untouched', forall([p], z3.Implies(z3.And(p != F, z3.Not(IsTempName(p))),
                                                                       z3.And(fs1.exists[p] == fs0.exists[p], fs1.data[p] == fs0.data[p]))))
            inst0, inst1 = st.get(ref), s.get(ref)
            ob('C04', 'no_handle_local_state', inst0.attrs == inst1.attrs)
        for (s, r) in none_outs:
            obs.append(Obligation(fn + '(None)/no_effect', s.pc, z3.BoolVal(isinstance(r, NoneV) and not s.ghost.get('fs_trace')), prop='C03', func=fn,
                                  path=plabel + ' | ' + ('/'.join(s.labels) or 'straight'), info={'case': 'fs', 'op': plabel}))
        # ------------------------------------------------------------------------------------ __asdict__()
        fn = '_archives:file_archive.__asdict__'
        st, ref, F, fs0 = case.fresh(protocol)
        I.cur_func = fn
        try:
            outs = I.call_method(st.fork(), ref, '__asdict__', CallArgs([]))
        except Unsupported as e:
            obs.append(Obligation(fn + '/supported', [], z3.BoolVal(False), prop='C03', func=fn, path='%s: %s' % (plabel, e),
                                  info={'case': 'fs', 'op': plabel, 'unsupported': str(e)}))
            continue
        for (s, r) in outs:
            path = plabel + ' | ' + ('/'.join(s.labels) or 'straight')
            good = z3.BoolVal(False)
            if isinstance(r, Ref) and r != ref:
                ro = s.get(r)
                if isinstance(ro, ConcDict) and not ro.items:
                    ro = DictObj.empty('Val')
                if isinstance(ro, DictObj):
                    good = read_is(fs0, F, ro)
            obs.append(Obligation(fn + '/returns_fresh_dict_of_contents', s.pc, good, prop='C03', func=fn, path=path, info={'case': 'fs', 'op': plabel}))
            obs.append(Obligation(fn + '/no_effect', s.pc, z3.BoolVal(not s.ghost.get('fs_trace')), prop='C03', func=fn, path=path,
                                  info={'case': 'fs', 'op': plabel}))
    # ---------------------------------------------------------------- __init__: opening an archive
    for protocol, plabel in ((NONE, 'protocol=None (dill)'), (StrV('json'), "protocol='json'")):
        fn = '_archives:file_archive.__init__'
        st, ref0, F, fs0 = case.fresh(protocol)
        OLD = DictObj.symbolic('old', 'Val')
        st.assume(*OLD.facts())
        st.assume(read_is(fs0, F, OLD))
        I.cur_func = fn
        try:
            kw = {} if isinstance(protocol, NoneV) else {'protocol': protocol}
            outs = I.call(st.fork(), case.fa, CallArgs([StrV('store.arc')], kw))
        except Unsupported as e:
            obs.append(Obligation(fn + '/supported', [], z3.BoolVal(False), prop='C13', func=fn, path='%s: %s' % (plabel, e),
                                  info={'case': 'fs', 'op': plabel, 'unsupported': str(e)}))
            continue
        for (s, r) in outs:
            path = plabel + ' | ' + ('/'.join(s.labels) or 'straight')
            trace = s.ghost.get('fs_trace', ())
            fs1 = _fs(s)
            # an existing file -- readable or not -- is never written by merely opening the archive
            obs.append(Obligation(fn + '/existing_file_is_not_touched', s.pc, z3.Implies(fs0.exists[F], z3.BoolVal(len(trace) == 0)), prop='C13', func=fn,
                                  path=path, info={'case': 'fs', 'op': plabel}))
            for i, (elabel, fsi) in enumerate(trace):
                obs.append(Obligation(fn + '/every_crash_point_reads_old_or_new', s.pc, read_is(fsi, F, OLD), prop='C13', func=fn,
                                      path='%s | after effect %d (%s)' % (path, i, elabel), info={'case': 'fs', 'op': plabel}))
            obs.append(Obligation(fn + '/contents_unchanged_by_opening', s.pc, z3.And(z3.BoolVal(not isinstance(r, Exc)), read_is(fs1, F, OLD)), prop='C04', func=fn,
                                  path=path, info={'case': 'fs', 'op': plabel}))
            good = False
            if isinstance(r, Ref):
                o = s.get(r)
                stt = o.attrs.get('__state__') if hasattr(o, 'attrs') else None
                items = dict(s.get(stt).items) if isinstance(stt, Ref) and s.get(stt).kind == 'concdict' else {}
                good = isinstance(items.get('id'), StrV) and items['id'].s == 'store.arc' and isinstance(items.get('serialized'), BoolV) \
                    and z3.is_true(z3.simplify(items['serialized'].term)) and repr(items.get('protocol')) == repr(protocol)
            obs.append(Obligation(fn + '/records_location_and_encoding', s.pc, z3.BoolVal(bool(good)), prop='C04', func=fn, path=path,
                                  info={'case': 'fs', 'op': plabel}))
    # ---------------------------------------------------------------- the mutating mapping methods, end to end
    # (real glue + real __asdict__/__save__): every effect of every operation leaves old or final contents readable
    k = Opaque(z3.Const('k', Val))
    v = Opaque(z3.Const('v', Val))
    d = Opaque(z3.Const('dflt', Val))
    calls = [('__setitem__(k,v)', '__setitem__', [k, v]), ('__delitem__(k)', '__delitem__', [k]), ('pop(k)', 'pop', [k]), ('pop(k,d)', 'pop', [k, d]),
             ('popitem()', 'popitem', []), ('setdefault(k,d)', 'setdefault', [k, d]), ('update(D)', 'update', ['D']), ('clear()', 'clear', [])]
    for (label, meth, args) in calls:
        fn = '_archives:file_archive.%s' % label
        st, ref, F, fs0 = case.fresh(NONE)
        OLD = DictObj.symbolic('old', 'Val')
        st.assume(*OLD.facts())
        st.assume(read_is(fs0, F, OLD))
        pos = []
        for a in args:
            if a == 'D':
                D = DictObj.symbolic('D', 'Val')
                st.assume(*D.facts())
                pos.append(st.alloc(D))
            else:
                pos.append(a)
        I.cur_func = fn
        try:
            outs = I.call_method(st.fork(), ref, meth, CallArgs(list(pos)))
        except Unsupported as e:
            obs.append(Obligation(fn + '/supported', [], z3.BoolVal(False), prop='C13', func=fn, path=str(e)[:200],
                                  info={'case': 'fs', 'op': label, 'unsupported': str(e)}))
            continue
        for (s, r) in outs:
            path = '/'.join(s.labels) or 'straight'
            trace = s.ghost.get('fs_trace', ())
            fs1 = _fs(s)
            final = fs1.data[F]
            x = x_()
            for i, (elabel, fsi) in enumerate(trace):
                c = fsi.data[F]
                reads_final = z3.If(z3.And(fs1.exists[F], IsEnc(final)),
                                    z3.And(fsi.exists[F], IsEnc(c), DecSize(c) == DecSize(final),
                                           forall([x], z3.And(DecDom(c)[x] == DecDom(final)[x], z3.Implies(DecDom(final)[x], DecVal(c)[x] == DecVal(final)[x])))),
                                    z3.Or(z3.Not(fsi.exists[F]), z3.Not(IsEnc(c)), DecSize(c) == 0))
                obs.append(Obligation(fn + '/every_crash_point_reads_old_or_new', s.pc, z3.Or(read_is(fsi, F, OLD), reads_final), prop='C13', func=fn,
                                      path='%s | after effect %d (%s)' % (path, i, elabel), info={'case': 'fs', 'op': label}))
            if isinstance(r, Exc):
                obs.append(Obligation(fn + '/failed_operation_changes_nothing', s.pc, read_is(fs1, F, OLD), prop='C03', func=fn, path=path,
                                      info={'case': 'fs', 'op': label}))
    return obs, sha
