"""Bounded exploration of the REAL decorated functions with the contract clauses as run-time monitors
(DESIGN.md 3.8 "history enumeration").  Level B: a bounded stand-in, never counted as proved.

Breadth-first search over the abstract states (mem, archive, parked archive, queue, counters) that are
reachable from the freshly decorated function through the operations exposed on the wrapper, for a
small universe of keys.  Every transition is executed on the real klepto code: the wrapper is rebuilt in
the source state (contracts/wrapper_replay.build), the operation is performed, and every clause of the
wrapper contract that speaks about this operation is evaluated on the concrete pre/post snapshots
(wrapper_replay.eval_clause -- the same statements the symbolic back end proves).

Uses: (1) fallback when a wrapper leaves the Python subset pyvc translates; (2) search for a concrete
failing history when a proof obligation fails but its counter-model cannot be concretised; (3) a
consistency guard -- a clause that the prover discharges but that fails on a reachable state of the
real code means the engine or an assumed contract is wrong.
"""
import collections
import json
import random
import time

from . import wrapper_replay as WR

CALL_CLAUSES = [
    ('C08', 'frame.archive_binding'), ('C02', 'evals.at_most_once'), ('C12', 'evals.original_arguments'),
    ('C02', 'evals.iff_not_retrievable'), ('C01', 'result.equals_function'), ('C16', 'raises.only_listed'),
    ('C16', 'raises.state_unchanged[mem]'), ('C16', 'raises.state_unchanged[archive]'),
    ('C16', 'raises.state_unchanged[parked]'), ('C16', 'raises.state_unchanged[stats]'),
    ('C16', 'raises.state_unchanged[queue]'), ('C16', 'raises.state_unchanged[counter]'),
    ('C16', 'raises.user_exception_propagates'), ('C15', 'stats.hit'), ('C15', 'stats.load'), ('C15', 'stats.miss'),
    ('C15', 'stats.one_per_call'), ('C05', 'size.bound'), ('C05', 'size.purge_empties'),
    ('C07', 'evicted_entries_are_archived'), ('C07', 'archive_entries_preserved'), ('C07', 'parked_archive_untouched'),
    ('C06', 'hit_removes_nothing'), ('C06', 'no_overflow_removes_nothing'),
    ('C06', 'new_entry_resident_without_overflow'), ('C06', 'survivors_keep_their_values'),
    ('C18', 'stored_under_key'),
]
POLICY_CLAUSES = {
    'no': [('C05', 'size.nothing_resident')],
    'inf': [('C05', 'size.never_evicts')],
    'lfu': [('C06', 'lfu.use_recorded'), ('C06', 'lfu.other_counts_unchanged'), ('C06', 'lfu.victims_least_frequent'),
            ('C06', 'lfu.bookkeeping_covers_residents')],
    'lru': [('C06', 'lru.use_recorded'), ('C06', 'lru.recency_order_preserved'),
            ('C06', 'lru.bookkeeping_covers_residents'), ('C06', 'lru.victim')],
    'mru': [('C06', 'mru.use_recorded'), ('C06', 'mru.recency_order_preserved'),
            ('C06', 'mru.bookkeeping_covers_residents'), ('C06', 'mru.victim')],
    'rr': [('C06', 'rr.exactly_one_victim')],
}
SKIP_FOR = {'no': {'size.purge_empties', 'hit_removes_nothing', 'no_overflow_removes_nothing',
                   'new_entry_resident_without_overflow', 'survivors_keep_their_values'},
            'inf': {'size.bound', 'size.purge_empties', 'no_overflow_removes_nothing',
                    'new_entry_resident_without_overflow'}}
KEYLOOKUP = [('C18', 'never_evaluates'), ('C18', 'frame.archive_binding'), ('C18', 'modifies_nothing[mem]'),
             ('C18', 'modifies_nothing[archive]'), ('C18', 'modifies_nothing[parked]'), ('C18', 'modifies_nothing[stats]'),
             ('C18', 'modifies_nothing[queue]'), ('C18', 'modifies_nothing[counter]')]
OP_CLAUSES = {
    'key': KEYLOOKUP + [('C18', 'returns_storage_key')],
    'lookup': KEYLOOKUP + [('C18', 'returns_resident_value'), ('C18', 'raises')],
    'info': [('C15', 'modifies_nothing[mem]'), ('C15', 'modifies_nothing[stats]'), ('C15', 'modifies_nothing[queue]'),
             ('C15', 'modifies_nothing[counter]'), ('C15', 'field.hit'), ('C15', 'field.miss'), ('C15', 'field.load'),
             ('C15', 'field.size'), ('C15', 'field.maxsize')],
    'clear': [('C15', 'empties_memory'), ('C15', 'stats.zeroed_unless_kept'), ('C15', 'bookkeeping_emptied[queue]'),
              ('C08', 'archives_untouched')],
    'load': [], 'dump': [], 'archived': [], 'attach': [],
}
REJECT_CLAUSES = ['rejected_archive_write_loses_nothing', 'rejected_archive_write_propagates']
INV = {'no': [], 'inf': [], 'lfu': ['Inv_lfu'], 'lru': ['Inv_lru.refcount', 'Inv_lru.resident', 'Inv_lru.sentinel'],
       'mru': ['Inv_mru.hashable'], 'rr': []}
INV_ALL = ['Inv_val[mem]', 'Inv_val[A]', 'Inv_val[S]', 'stats>=0']


def clauses_for(pol, op):
    if op == 'call':
        skip = SKIP_FOR.get(pol, set())
        return [(p, c) for (p, c) in CALL_CLAUSES if c not in skip] + POLICY_CLAUSES.get(pol, [])
    return OP_CLAUSES.get(op, [])


def operations(universe, safe):
    ops = []
    for e in range(universe):
        ops.append({'op': 'call', 'call': {'key_elem': e, 'keygen_raises': False, 'user_raises': False}})
    ops.append({'op': 'call', 'call': {'key_elem': 0, 'keygen_raises': False, 'user_raises': True}})
    ops.append({'op': 'call', 'call': {'key_elem': 0, 'keygen_raises': True, 'user_raises': False}})
    ops.append({'op': 'call', 'call': {'key_elem': universe, 'keygen_raises': False, 'user_raises': False},
                'unhashable_call': True})
    ops += [{'op': 'clear', 'clear_mode': 'default'}, {'op': 'clear', 'clear_mode': 'keyword', 'keep': True},
            {'op': 'load', 'keys': []}, {'op': 'load', 'keys': [1]}, {'op': 'dump', 'keys': []}, {'op': 'dump', 'keys': [0]},
            {'op': 'archived', 'flag': False}, {'op': 'archived', 'flag': True}, {'op': 'attach'},
            {'op': 'key', 'call': {'key_elem': 1, 'keygen_raises': False, 'user_raises': False}},
            {'op': 'lookup', 'call': {'key_elem': 1, 'keygen_raises': False, 'user_raises': False}},
            {'op': 'lookup', 'call': {'key_elem': universe - 1, 'keygen_raises': False, 'user_raises': False}},
            {'op': 'info'}]
    return ops


def canon(spec):
    """dedup key of an abstract state (statistics are not part of it: clauses are relative)"""
    return json.dumps([spec['mem'], spec['A'], spec['S'], spec.get('queue'), spec.get('counter')], sort_keys=True)


def step(state, op, pol, only=None):
    """perform op on the real wrapper rebuilt in `state` -> (post state | None, violations, evaluations)"""
    spec = dict(state)
    spec.update(op)
    spec['unhashable'] = [op['call']['key_elem']] if op.get('unhashable_call') else []
    spec['clause'] = ''
    w, ctx = WR.build(spec)
    pre = WR.Sigma(w, ctx['roles'])
    outcome, value = WR.perform(spec, w, ctx)
    post = WR.Sigma(w, ctx['roles'])
    viol = []
    n = 0
    if ctx.get('rejections'):
        # the archive rejected a write during this step: the properties are stated for archives that accept the values;
        # what is still claimed is the order of dump and drop (C07) and the representation invariant
        names = [('C07', c) for c in REJECT_CLAUSES] if spec['op'] == 'call' else []
    else:
        names = list(clauses_for(pol, spec['op']))
    names += [('INV', 'inv.' + i) for i in INV_ALL + INV[pol]]
    for (prop, cl) in names:
        if only is not None and cl not in only and prop not in only:
            continue
        try:
            ok = WR.eval_clause(cl, spec, pre, post, outcome, value, ctx)
        except Exception as e:        # a monitor that cannot be evaluated is not a violation
            ok = None
        n += 1
        if ok is False:
            viol.append({'property': prop, 'clause': cl, 'outcome': outcome, 'value': repr(value)[:200],
                         'pre': WR.snap_repr(pre), 'post': WR.snap_repr(post)})
    if ctx.get('rejections') and outcome == 'raise' and isinstance(value, WR.RejectErr):
        pass
    elif outcome == 'raise' and not isinstance(value, (WR.UserErr, WR.KeygenErr, TypeError, KeyError, ValueError)):
        viol.append({'property': 'C16', 'clause': 'raises.only_listed', 'outcome': outcome, 'value': repr(value)[:200],
                     'pre': WR.snap_repr(pre), 'post': WR.snap_repr(post)})
    nxt = WR.spec_of(state, w, ctx)
    return nxt, viol, n


def explore(module, cls, maxsizes=(1, 2), purges=(False, True), universe=3, depth=5, budget_s=60.0,
            only=None, seed=0, max_states=4000):
    """-> dict(states, transitions, evaluations, violations=[...], exhausted=bool, samples=[...])"""
    pol = cls.split('_')[0]
    safe = module.endswith('safe')
    t0 = time.time()
    random.seed(seed)
    res = {'states': 0, 'transitions': 0, 'evaluations': 0, 'violations': [], 'exhausted': True, 'samples': [],
           'configs': 0}
    ops = operations(universe, safe)
    if pol in ('no', 'inf'):
        maxsizes, purges = (1,), (False,)
    for M in maxsizes:
        for purge in purges:
            archs = ['none', 'dict']
            if only is None or 'C07' in only or set(only) & set(REJECT_CLAUSES):
                archs.append('rejecting')       # a dict archive that cannot encode the value of key 0
            if only is not None and ('C18' in only or 'C11' in only):
                archs.append('ignore')          # decorated with ignore='verbose' (a bare string naming a parameter), dict archive
            if only is not None and ('C18' in only or 'C09' in only):
                archs.append('kwonly')          # the user function has a keyword-only default (key generation adds it to every key)
            for arch in archs:
                res['configs'] += 1         # (purge with no archive at decoration: one may be attached later)
                init = {'module': module, 'cls': cls, 'maxsize': M, 'purge': purge, 'universe': universe,
                        'arch0': 'dict' if arch in ('rejecting', 'ignore', 'kwonly') else arch,
                        'mem': {}, 'A': None if arch == 'none' else {}, 'S': None, 'stats': [0, 0, 0]}
                if arch == 'rejecting':
                    init['rejects'] = [0]
                if arch == 'ignore':
                    init['ignore'] = 'verbose'
                if arch == 'kwonly':
                    init['kwonly'] = True
                if pol in ('lru', 'mru'):
                    init['queue'] = []
                if pol in ('lru', 'lfu'):
                    init['counter'] = {}
                seen = {canon(init): None}
                frontier = collections.deque([(init, 0, [])])
                while frontier:
                    if time.time() - t0 > budget_s or len(seen) > max_states:
                        res['exhausted'] = False
                        break
                    st, d, hist = frontier.popleft()
                    res['states'] += 1
                    for op in ops:
                        random.seed(hash((seed, canon(st), json.dumps(op, sort_keys=True))) & 0xffffffff)
                        try:
                            nxt, viol, n = step(st, op, pol, only)
                        except Exception as e:
                            res['violations'].append({'property': 'ENGINE', 'clause': 'explorer crashed: %r' % (e,),
                                                      'history': hist + [op], 'config': {'maxsize': M, 'purge': purge}})
                            continue
                        res['transitions'] += 1
                        res['evaluations'] += n
                        for v in viol:
                            v['history'] = hist + [op]
                            v['state'] = st
                            v['config'] = {'maxsize': M, 'purge': purge, 'archive': arch}
                            res['violations'].append(v)
                        if len(res['samples']) < 3 and d >= 2:
                            res['samples'].append({'config': {'maxsize': M, 'purge': purge, 'archive': arch},
                                                   'history': [_short(o) for o in hist + [op]]})
                        if nxt is None:
                            continue
                        nxt['stats'] = [0, 0, 0]
                        k = canon(nxt)
                        if k not in seen and d + 1 < depth:
                            seen[k] = True
                            frontier.append((nxt, d + 1, hist + [op]))
                    if len(res['violations']) > 20:
                        res['exhausted'] = False
                        break
                if frontier:
                    res['exhausted'] = False
    res['wall_s'] = round(time.time() - t0, 2)
    return res


def _short(op):
    o = op['op']
    if o == 'siblings':
        return 'scenario with several decorated functions'
    if o == 'call':
        c = op['call']
        tag = 'raise' if c['user_raises'] else ('keygen-raise' if c['keygen_raises'] else ('unhashable' if op.get('unhashable_call') else ''))
        return 'f(%s)%s' % (c['key_elem'], (':' + tag) if tag else '')
    if o in ('key', 'lookup'):
        return '%s(%s)' % (o, op['call']['key_elem'])
    if o in ('load', 'dump'):
        return '%s(%s)' % (o, ','.join(map(str, op['keys'])))
    if o == 'archived':
        return 'archived(%s)' % op['flag']
    if o == 'attach':
        return 'archive(dict_archive())'
    if o == 'clear':
        return 'clear(keepstats=%s)' % bool(op.get('keep'))
    return o


def _run_linear(init, ops_seq, pol, only):
    """perform ops_seq on ONE real wrapper built in `init` (nothing is rebuilt between the steps, so state the wrapper hides in
    its closure evolves as in a real session); the clauses are evaluated on the LAST step -> (violations, evaluations)"""
    spec0 = dict(init)
    spec0['clause'] = ''
    w, ctx = WR.build(spec0)
    for op in ops_seq[:-1]:
        sp = dict(spec0)
        sp.update(op)
        WR.perform(sp, w, ctx)
    spec = dict(spec0)
    spec.update(ops_seq[-1])
    spec['unhashable'] = []
    del ctx['calls'][:]
    pre = WR.Sigma(w, ctx['roles'])
    outcome, value = WR.perform(spec, w, ctx)
    post = WR.Sigma(w, ctx['roles'])
    viol, n = [], 0
    names = list(clauses_for(pol, spec['op'])) + [('INV', 'inv.' + i) for i in INV_ALL + INV[pol]]
    for (prop, cl) in names:
        if only is not None and cl not in only and prop not in only:
            continue
        try:
            ok = WR.eval_clause(cl, spec, pre, post, outcome, value, ctx)
        except Exception:      # noqa
            ok = None
        n += 1
        if ok is False:
            viol.append({'property': prop, 'clause': cl, 'outcome': outcome, 'value': repr(value)[:200],
                         'pre': WR.snap_repr(pre), 'post': WR.snap_repr(post)})
    return viol, n


def linear_search(module, cls, only, depth=7, budget_s=40.0, universe=4, recursive=False):
    """all call sequences over `universe` keys up to `depth` (and sequences with load/clear/dump up to depth 5), each run on a
    single wrapper from the freshly decorated function: finds failures that depend on state hidden in the closure, which the
    state-rebuilding explorer cannot see.  -> a history-style violation record (with 'linear': True) or None"""
    import itertools
    pol = cls.split('_')[0]
    t0 = time.time()
    call_ops = [{'op': 'call', 'call': {'key_elem': e, 'keygen_raises': False, 'user_raises': False}} for e in range(universe)]
    extra = [{'op': 'load', 'keys': []}, {'op': 'clear', 'clear_mode': 'default'}, {'op': 'dump', 'keys': []}, {'op': 'info'},
             {'op': 'clear', 'clear_mode': 'keyword', 'keep': True}]
    maxsizes, purges = ((1,), (False,)) if pol in ('no', 'inf') else ((2, 1), (False, True))
    for (opset, maxlen) in ((call_ops, depth), (call_ops + extra, min(depth, 5))):
        for M in maxsizes:
            for purge in purges:
                for arch in ('dict', 'none'):
                    if purge and arch == 'none':
                        continue
                    init = {'module': module, 'cls': cls, 'maxsize': M, 'purge': purge, 'universe': universe, 'arch0': arch,
                            'mem': {}, 'A': None if arch == 'none' else {}, 'S': None, 'stats': [0, 0, 0]}
                    if pol in ('lru', 'mru'):
                        init['queue'] = []
                    if pol in ('lru', 'lfu'):
                        init['counter'] = {}
                    if recursive:
                        init['recursive'] = True        # the user function calls the decorated function on the next smaller key
                    for n in range(1, maxlen + 1):
                        for seq in itertools.product(range(len(opset)), repeat=n):
                            if time.time() - t0 > budget_s:
                                return None
                            ops_seq = [opset[i] for i in seq]
                            random.seed(4242)
                            try:
                                viol, _ = _run_linear(init, ops_seq, pol, only)
                            except Exception:      # noqa
                                continue
                            if viol:
                                v = viol[0]
                                v.update({'history': ops_seq, 'state': init, 'linear': True, 'config': {'maxsize': M, 'purge': purge, 'archive': arch}})
                                return v
    return None


# ---- siblings: several decorated functions / decorator objects / cache objects in one process ---------------------------------
def sibling_probe(module, cls):
    """Three short scenarios on the real code in which more than one decorated function exists (the proofs and the explorer look
    at one function at a time): state that should belong to one function, one decorator object or one cache object must not be
    shared with another.  -> [(property, clause, message)]"""
    import importlib
    klepto, ka, km = WR._mods()
    C = getattr(importlib.import_module(module), cls)
    pol = cls.split('_')[0]
    bounded = pol not in ('no', 'inf')
    out = []

    def F1(x, y=0):
        F1.calls.append((x, y))
        return ('F1', x, y)

    def F2(a):
        F2.calls.append(a)
        return ('F2', a)
    F1.calls, F2.calls = [], []

    def mk(maxsize, cache, **kw):
        d = dict(cache=cache, keymap=km.keymap(), **kw)
        if bounded:
            d['maxsize'] = maxsize
        return C(**d)
    # S1: one decorator object applied to two functions
    try:
        dec = mk(4, ka.cache(archive=ka.dict_archive()))
        f = dec(F1)
        g = dec(F2)
        r = [f(1), f(2), f(1)]
        if r != [F1(1), F1(2), F1(1)]:
            out.append(('C01', 'result.equals_function[siblings]', 'one decorator applied to F1 and F2: F1 calls return %r' % (r,)))
        gi, fi = tuple(g.info())[:3], tuple(f.info())[:3]
        want_f = (0, 0, 3) if False else None
        if gi != (0, 0, 0):
            out.append(('C15', 'stats.per_function[siblings]', 'one decorator applied to F1 and F2: F2 was never called but reports (hit, miss, load) = %r (F1: %r)' % (gi, fi)))
        if sum(fi) != 3:
            out.append(('C15', 'stats.per_function[siblings]', 'F1 completed 3 calls but reports (hit, miss, load) = %r' % (fi,)))
        if pol != 'no':
            k = f.key(2)
            try:
                lv = f.lookup(2)
            except Exception as e:      # noqa
                lv = 'raises %r' % (e,)
            if k not in f.__cache__() or lv != F1(2):
                out.append(('C18', 'returns_storage_key[siblings]', 'one decorator applied to F1 and F2: F1.key(2) = %r is %sin the cache %r; F1.lookup(2) -> %r'
                            % (k, '' if k in f.__cache__() else 'NOT ', sorted(map(repr, f.__cache__())), lv)))
        r2 = g(5)
        if r2 != F2(5) or f(1) != F1(1):
            out.append(('C01', 'result.equals_function[siblings]', 'one decorator applied to F1 and F2: F2(5) -> %r, then F1(1) -> %r' % (r2, f(1))))
    except Exception as e:      # noqa
        out.append(('C01', 'result.equals_function[siblings]', 'one decorator applied to two functions: %r' % (e,)))
    # S2: two decorator objects are configured before either is applied
    try:
        def square(x):
            return x * x

        def double(x):
            return x + x
        c1, c2 = ka.cache(archive=ka.dict_archive()), ka.cache(archive=ka.null_archive())
        d1, d2 = mk(2, c1), mk(5, c2)
        f, g = d1(square), d2(double)
        r = (f(3), g(3), f(3), g(3))
        if r != (9, 6, 9, 6):
            out.append(('C01', 'result.equals_function[siblings]', 'two decorators configured, then applied to square and double: square(3), double(3), square(3), double(3) -> %r' % (r,)))
        if f.__cache__() is not c1 or g.__cache__() is not c2 or (bounded and (f.info().maxsize, g.info().maxsize) != (2, 5)):
            out.append(('C08', 'frame.archive_binding[siblings]', 'two decorators configured, then applied: the first function does not use the cache/maxsize it was configured with (maxsize %r / %r)'
                        % (f.info().maxsize, g.info().maxsize)))
    except Exception as e:      # noqa
        out.append(('C01', 'result.equals_function[siblings]', 'two decorators, then two functions: %r' % (e,)))
    # S3: two functions with their own caches and archives, overlapping keys, interleaved (purge off)
    if bounded:
        try:
            ca, cb = ka.cache(archive=ka.dict_archive()), ka.cache(archive=ka.dict_archive())
            na, nb = [], []

            def A(x):
                na.append(x)
                return ('A', x)

            def B(x):
                nb.append(x)
                return ('B', x)
            random.seed(4242)
            fa, fb = mk(1, ca, purge=False)(A), mk(1, cb, purge=False)(B)
            for step in ((fb, 0), (fa, 0), (fa, 1), (fb, 1), (fb, 0), (fa, 0), (fb, 2), (fa, 2), (fb, 1)):
                step[0](step[1])
                for (c, nm, fn) in ((ca, 'A', A), (cb, 'B', B)):
                    pass
            lostb = [x for x in set(nb) if fb.key(x) not in cb and fb.key(x) not in cb.archive]
            losta = [x for x in set(na) if fa.key(x) not in ca and fa.key(x) not in ca.archive]
            if lostb or losta:
                out.append(('C07', 'evicted_entries_are_archived[siblings]', 'two functions with their own caches and archives, interleaved: results for %r (A) / %r (B) are neither in memory nor in their archive'
                            % (losta, lostb)))
            if len(nb) != len(set(nb)) or len(na) != len(set(na)):
                out.append(('C02', 'evals.at_most_once[siblings]', 'two functions with their own caches and archives, interleaved: evaluations A %r, B %r' % (na, nb)))
        except Exception as e:      # noqa
            out.append(('C02', 'evals.at_most_once[siblings]', 'two functions with their own caches: %r' % (e,)))
    # S4: a cached function stacked on another cached function (the inner one carries klepto's own attributes: dump, load, ...)
    if bounded:
        try:
            n4 = []

            def G(x):
                n4.append(x)
                return ('G', x)
            inner = klepto.inf_cache(keymap=km.keymap())(G)
            co = ka.cache(archive=ka.dict_archive())
            random.seed(4242)
            outer = mk(1, co, purge=False)(inner)
            vals = {}
            for x in (0, 1, 2, 0, 3):
                vals[x] = outer(x)
                lost = [y for y in vals if outer.key(y) not in co and outer.key(y) not in co.archive]
                if lost:
                    out.append(('C07', 'evicted_entries_are_archived[siblings]', 'a cached function stacked on another cached function, maxsize 1, archive attached: after the call with %r the results for %r are neither '
                                'in the outer memory %r nor in its archive %r' % (x, lost, sorted(map(repr, co)), sorted(map(repr, co.archive)))))
                    break
            if any(vals[x] != ('G', x) for x in vals):
                out.append(('C01', 'result.equals_function[siblings]', 'a cached function stacked on another cached function returns %r' % (vals,)))
        except Exception as e:      # noqa
            out.append(('C07', 'evicted_entries_are_archived[siblings]', 'a cached function stacked on another: %r' % (e,)))
    return out


def sibling_search(module, cls, only):
    """-> violation records in the format of the explorer (replayable with replay_history)"""
    res = []
    for (prop, clause, msg) in sibling_probe(module, cls):
        if only is not None and prop not in only and clause not in only:
            continue
        res.append({'property': prop, 'clause': clause, 'sibling': True, 'message': msg, 'outcome': 'n/a', 'value': msg[:200],
                    'history': [{'op': 'siblings'}], 'state': {'module': module, 'cls': cls}, 'config': {'scenario': 'several decorated functions'}})
    return res


def replay_history(v):
    """re-run a violation record (state + last operation) on the real code -> still violated?"""
    pol = v['state']['cls'].split('_')[0]
    if v.get('sibling'):
        return any(c == v['clause'] for (_, c, _) in sibling_probe(v['state']['module'], v['state']['cls']))
    if v.get('linear'):
        random.seed(4242)
        viol, _ = _run_linear(v['state'], v['history'], pol, {v['clause']})
        return any(x['clause'] == v['clause'] for x in viol)
    nxt, viol, n = step(v['state'], v['history'][-1], pol, only={v['clause']})
    return any(x['clause'] == v['clause'] for x in viol)


if __name__ == '__main__':
    import sys
    r = explore(sys.argv[1], sys.argv[2], depth=int(sys.argv[3]) if len(sys.argv) > 3 else 4,
                budget_s=float(sys.argv[4]) if len(sys.argv) > 4 else 60)
    vs = r.pop('violations')
    print(json.dumps(r, indent=1)[:1500])
    seen = set()
    for v in vs:
        k = (v['property'], v['clause'])
        if k in seen:
            continue
        seen.add(k)
        print('VIOL', v['property'], v['clause'], v['config'], [_short(o) if isinstance(o, dict) else o for o in v['history']], v.get('outcome'), v.get('value'))
        print('    pre', v.get('pre'))
        print('    post', v.get('post'))
