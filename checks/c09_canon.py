"""C09 -- key canonicalisation: calls that bind the same values to the same parameters get the same key (bounded)."""
from bounded import keychecks as KC

CROSSHAIR = ['bounded.xh.keymap_sidecar']
CONTRACTS = ['klepto._inspect._keygen', 'klepto.keymaps.keymap/hashmap/stringmap/picklemap (.__call__, .encode, .encrypt)',
             'klepto.crypto.hash/string/pickle (through the keymaps)']
RULE = ('one evaluation = the key of one valid call under one keymap configuration, recorded against the binding that CPython '
        'produced for the call (the stub returns what it received); distinct_nontrivial = distinct (callable, binding, '
        'configuration) triples, i.e. groups of call forms that must collapse')
SCOPE = {
    'quick': 'callables with <=2 positional-or-keyword parameters, optional *args, <=1 keyword-only parameter, optional **kw, as '
             'function / bound method / callable instance / partial; calls with 0..3 positionals and every ordered selection of <=2 '
             'keywords; 52 keymap configurations (raw, md5-hash, builtin-hash, string, repr-/pickle-/dill-picklemap x flat x typed x sentinel)',
    'reserved names': 'both tiers: every parameter name that occurs in klepto\'s own signatures (collected from the source: self, func, ignored, ...) as the name of a user parameter, in 6 callable forms, every way of passing it, 7 keymaps and 3 decorators; functions named like a method of their first argument (count, index, join, keys, format) with 5 kinds of first argument',
    'thorough': 'callables with <=3 positional-or-keyword parameters, optional *args, <=2 keyword-only parameters, optional **kw; '
                'calls with 0..4 positionals and every ordered selection of <=3 keywords; the same 52 keymap configurations',
}
SCOPE = {t: SCOPE[t] + '; ' + SCOPE['reserved names'] for t in ('quick', 'thorough')}
ASSUMPTIONS = ['bounded scope, not a proof', 'ground truth for binding = calling a stub of the same shape under CPython',
               'argument values are opaque tokens with value-based equality; tol=None (rounding is C12)']


def units(tier, seed):
    from bounded import reserved_names as RN
    n = len(RN.names())
    return KC.unit_list('thorough' if tier == 'thorough' else 'quick') + [('reserved', lo, min(lo + 8, n)) for lo in range(0, n, 8)] + [('method-names',)]


def run_unit(unit):
    if unit[0] == 'reserved':
        from bounded import reserved_names as RN
        return RN.run_c09(unit[1], unit[2])
    if unit[0] == 'method-names':
        from bounded import reserved_names as RN
        return RN.run_method_names()
    return KC.run_c09(unit)


def replay(w):
    if 'reserved' in w or 'methodname' in w:
        from bounded import reserved_names as RN
        return RN.replay(w)
    return KC.replay_c09(w)


def level_a(tier):
    """keymap.encode / keymap.encrypt proved order-free and equal to their specification for <=2 positional and <=2 keyword
    arguments with symbolic values (contracts/keymap_contracts.py)"""
    from checks import wrapperprops
    # ... and the maxsize dispatch (__new__) of the bounded decorator classes hands the configured keymap to the class it picks
    return wrapperprops.merge_level_a(wrapperprops.keymap_level_a(), wrapperprops.level_a_summary('C09', tier))
