"""C20 -- a pickled cached function resumes exactly where the original was (bounded lock-step stand-in).

For every decorator class, configuration and call-history prefix of the scope: clone = dill.loads(dill.dumps(f));
contract monitors: (1) right after the round trip the clone has equal cache contents, archive contents, statistics,
maxsize and archived() flag; (2) original and clone, continued in lock-step with the same operations, return the same
results and stay equal in all of those after every step (same evictions); (3) continuing only the clone leaves the
in-memory state of the original unchanged.
"""
import itertools
import random
import traceback

CONTRACTS = ['the wrapper closures of the 12 decorator classes as pickled by dill (klepto/_cache.py, klepto/safe.py)',
             'klepto._archives.cache / dict_archive / null_archive pickling', 'klepto.rounding.*.__reduce__', 'klepto.keymaps.keymap pickling']
RULE = ('one evaluation = one comparison of original and clone (contents, archive, statistics, configuration, result) at one step of one '
        'lock-step continuation; distinct_nontrivial = distinct (class, configuration, prefix, continuation) tuples')
SCOPE = {
    'quick': '12 decorator classes x {maxsize 2} x purge on/off x archive none/dict_archive x keymaps raw and stringmap, tol None and 1; prefixes: '
             'all sequences of <=3 operations over f(0) f(1) f(2.4) dump() archived(False); 7 continuations of <=3 operations (calls incl. new '
             'and float arguments, clear, load, dump, archived(True))',
    'thorough': 'as quick with prefixes of <=4 operations',
    'both tiers': 'plus: file (pickle/json) and dir (pickle/json) archives as shared storage across the round trip; a cached METHOD (ignore self) whose function dill copies by value, 3 keymaps x 3 ignore specifications, lock-step over 8 calls with explicit instances; keymaps configured with the SENTINEL object of klepto.keymaps (hashmap with the builtin hash, raw keymap), prefixes of <=2 operations',
}
SCOPE = {t: SCOPE[t] + '; ' + SCOPE['both tiers'] for t in ('quick', 'thorough')}
ASSUMPTIONS = ['bounded scope, not a proof', 'dill copies closures by value and preserves sharing between closure cells (assumed contract of dill: '
               'it is most of the property)', 'rr_cache: the global random generator is re-seeded identically before each lock-step operation']


def F(x, y=0):
    return ('val', x, y)


PREFIX_OPS = [('call', 0), ('call', 1), ('call', 2.4), ('dump',), ('archived', False)]
CONTS = [[('call', 2.4), ('call', 0), ('call', 3)], [('call', 3), ('call', 3)], [('clear',), ('call', 0)],
         [('archived', True), ('call', 1), ('call', 3)], [('load',), ('call', 0)], [('dump',), ('call', 2.1)], [('call', 2.6), ('call', 1)]]


def build(modname, clsname, purge, arch, kmkind, tol):
    import importlib
    import klepto.archives as A
    import klepto.keymaps as KM
    mod = importlib.import_module(modname)
    cls = getattr(mod, clsname)
    if arch == 'dict':
        cache = A.dict_archive('c20', cached=True)
    elif arch.startswith('filejson:'):
        cache = A.file_archive(arch.split(':', 1)[1], cached=True, protocol='json')
    elif arch.startswith('filepickle:'):
        cache = A.file_archive(arch.split(':', 1)[1], cached=True)
    elif arch.startswith('dirjson:'):
        cache = A.dir_archive(arch.split(':', 1)[1], cached=True, protocol='json')
    elif arch.startswith('dirpickle:'):
        cache = A.dir_archive(arch.split(':', 1)[1], cached=True)
    else:
        cache = A.null_archive(cached=True)
    km = {'raw': KM.keymap, 'string': KM.stringmap, 'hashsentinel': lambda: KM.hashmap(sentinel=KM.SENTINEL),
          'rawsentinel': lambda: KM.keymap(sentinel=KM.SENTINEL)}[kmkind]()
    kw = {'cache': cache, 'keymap': km, 'tol': tol}
    if clsname not in ('no_cache', 'inf_cache'):
        kw.update(maxsize=2, purge=purge)
    return cls(**kw)(F)


def state(f):
    c = f.__cache__()
    i = f.info()
    arch = c.archive
    swap = getattr(c, '__swap__', None)
    return {'mem': sorted((repr(k), repr(v)) for k, v in c.items()), 'archive': sorted((repr(k), repr(v)) for k, v in arch.items()),
            'parked': sorted((repr(k), repr(v)) for k, v in swap.items()) if swap is not None else None,
            'info': (i.hit, i.miss, i.load, i.maxsize, i.size), 'archived': f.archived()}


def apply(f, op):
    random.seed(4242)
    try:
        if op[0] == 'call':
            return ('ret', repr(f(op[1])))
        if op[0] == 'dump':
            return ('ret', repr(f.dump()))
        if op[0] == 'load':
            return ('ret', repr(f.load()))
        if op[0] == 'clear':
            return ('ret', repr(f.clear()))
        if op[0] == 'archived':
            return ('ret', repr(f.archived(op[1])))
    except Exception as e:      # noqa
        return ('raise', e.__class__.__name__)
    raise ValueError(op)


def units(tier, seed):
    us = []
    for modname in ('klepto._cache', 'klepto.safe'):
        for cls in ('no_cache', 'inf_cache', 'lfu_cache', 'lru_cache', 'mru_cache', 'rr_cache'):
            for purge in ((False, True) if cls not in ('no_cache', 'inf_cache') else (False,)):
                for arch in ('none', 'dict'):
                    for (kmkind, tol) in (('raw', None), ('string', 1)):
                        us.append((modname, cls, purge, arch, kmkind, tol, 4 if tier == 'thorough' else 3))
            # keymaps configured with the module's sentinel objects: the keys (or their builtin hashes) depend on the IDENTITY of
            # the sentinel, which the round trip has to preserve
            us.append((modname, cls, False, 'none', 'hashsentinel', None, 2))
            if modname == 'klepto._cache':
                us.append((modname, cls, False, 'dict', 'rawsentinel', None, 2))
            us.append((modname, cls, False, 'filejson', 'string', None, 0))
            us.append((modname, cls, False, 'method', 'string', None, 0))
            if modname == 'klepto._cache' or cls in ('lru_cache', 'no_cache'):
                for kind in ('filepickle', 'dirjson', 'dirpickle'):
                    us.append((modname, cls, False, kind, 'string', None, 0))
    return us


def run_unit(unit):
    import dill
    modname, cls, purge, arch, kmkind, tol, plen = unit
    if arch in ('filejson', 'filepickle', 'dirjson', 'dirpickle'):
        return run_persistent(unit)
    if arch == 'method':
        return run_method(unit)
    out = {'evaluations': 0, 'distinct': 0, 'violations': [], 'samples': [], 'counters': {'roundtrips': 0}}
    seen = set()

    def viol(clause, klass, msg, wit):
        if (clause, klass) in seen:
            return
        seen.add((clause, klass))
        out['violations'].append({'clause': clause, 'klass': klass, 'message': msg, 'witness': wit})
    cfg = '%s.%s purge=%s archive=%s keymap=%s tol=%s' % (modname.split('.')[-1], cls, purge, arch, kmkind, tol)
    try:
        prefixes = [()]
        for n in range(1, plen + 1):
            prefixes += list(itertools.product(range(len(PREFIX_OPS)), repeat=n))
        for pre in prefixes:
            for ci, cont in enumerate(CONTS):
                f = build(modname, cls, purge, arch, kmkind, tol)
                for oi in pre:
                    apply(f, PREFIX_OPS[oi])
                wit = {'unit': list(unit), 'prefix': list(pre), 'cont': ci}
                try:
                    g = dill.loads(dill.dumps(f))
                except Exception as e:      # noqa
                    viol('roundtrip_succeeds', '%s: dill round trip fails' % cls, '%s after %r: %r' % (cfg, [PREFIX_OPS[i] for i in pre], e), wit)
                    continue
                out['counters']['roundtrips'] += 1
                out['distinct'] += 1
                s0, s1 = state(f), state(g)
                out['evaluations'] += 1
                if s0 != s1:
                    viol('clone_equals_original', '%s: state differs right after the round trip' % cls,
                         '%s after %r: original %r, clone %r' % (cfg, [PREFIX_OPS[i] for i in pre], s0, s1), wit)
                    continue
                # lock-step
                ok = True
                for step, op in enumerate(cont):
                    r0, r1 = apply(f, op), apply(g, op)
                    s0, s1 = state(f), state(g)
                    out['evaluations'] += 1
                    if r0 != r1 or s0 != s1:
                        viol('lockstep_equal', '%s: original and clone diverge in lock-step' % cls,
                             '%s after %r, round trip, then %r: step %d %r gives %r / %r; states %r / %r'
                             % (cfg, [PREFIX_OPS[i] for i in pre], cont, step, op, r0, r1, s0, s1), wit)
                        ok = False
                        break
                if not ok:
                    continue
                # independence: a further clone continued alone leaves the original's in-memory state as it is
                h = dill.loads(dill.dumps(f))
                before = state(f)
                for op in [('call', 7), ('call', 8), ('call', 9), ('clear',)]:
                    apply(h, op)
                out['evaluations'] += 1
                if state(f) != before:
                    viol('independent_afterwards', '%s: continuing the clone changes the original' % cls,
                         '%s after %r: original changed from %r to %r' % (cfg, [PREFIX_OPS[i] for i in pre], before, state(f)), wit)
        out['samples'].append({'configuration': cfg, 'prefixes': len(prefixes), 'continuations': len(CONTS)})
    except Exception:
        out['violations'].append({'clause': 'harness', 'klass': 'harness crashed on %s' % cfg, 'message': traceback.format_exc()[-700:],
                                  'witness': {'unit': list(unit)}})
    return out


METHOD_SRC = '''
class Model(object):
    def __init__(self, scale):
        self.scale = scale

    @DEC
    def response(self, x, y=2):
        return ('val', x, y)
'''


def run_method(unit):
    """a cached METHOD (ignore='self') defined in a __main__-like namespace, so that dill copies the function by value: the clone of
    Model.response continues in lock-step with the original when both are called with explicit instances"""
    import dill
    import importlib
    import klepto.keymaps as KM
    modname, cls, purge, arch, kmkind, tol, plen = unit
    out = {'evaluations': 0, 'distinct': 0, 'violations': [], 'samples': [], 'counters': {'roundtrips': 0}}
    try:
        for kmname, mk in (('stringmap', KM.stringmap), ('keymap', KM.keymap), ('hashmap', lambda: KM.hashmap(algorithm='md5'))):
            for ign in ('self', ('self',), ('self', 'y')):
                kw = {'keymap': mk(), 'ignore': ign}
                if cls not in ('no_cache', 'inf_cache'):
                    kw['maxsize'] = 3
                dec = getattr(importlib.import_module(modname), cls)(**kw)
                ns = {'__name__': '__main__', 'DEC': dec}
                exec(METHOD_SRC, ns)
                Model = ns['Model']
                a, b = Model(1), Model(5)
                orig = Model.response
                for (o, args, kwds) in ((a, (1,), {}), (a, (2,), {'y': 3}), (b, (1,), {}), (a, (3,), {})):
                    random.seed(4242)
                    getattr(o, 'response')(*args, **kwds)
                wit = {'unit': list(unit), 'method': [kmname, list(ign) if isinstance(ign, tuple) else ign]}
                klass = '%s: cached method (ignore=%r)' % (cls, ign)
                try:
                    copy = dill.loads(dill.dumps(orig))
                except Exception as e:      # noqa
                    out['violations'].append({'clause': 'roundtrip_succeeds', 'klass': klass, 'message': '%s.%s %s: dill round trip of a cached method fails: %r' % (modname, cls, kmname, e), 'witness': wit})
                    continue
                out['counters']['roundtrips'] += 1
                out['distinct'] += 1
                bad = None
                if tuple(copy.info()) != tuple(orig.info()) or dict(copy.__cache__()) != dict(orig.__cache__()):
                    bad = 'right after the round trip: copy %r %r, original %r %r' % (tuple(copy.info()), dict(copy.__cache__()), tuple(orig.info()), dict(orig.__cache__()))
                for (o, args, kwds) in (() if bad else ((a, (1,), {}), (b, (2,), {'y': 3}), (a, (7,), {}), (b, (3,), {}), (a, (8,), {}), (b, (1,), {}), (a, (2, 3), {}), (a, (9,), {'y': 0}))):
                    out['evaluations'] += 1
                    res = []
                    for fn in (orig, copy):
                        random.seed(4242)
                        try:
                            res.append(('ret', fn(o, *args, **kwds)))
                        except Exception as e:      # noqa
                            res.append(('raise', e.__class__.__name__))
                    try:
                        keys = (orig.key(o, *args, **kwds), copy.key(o, *args, **kwds))
                    except Exception as e:      # noqa
                        keys = ('key', 'raises %r' % (e,))
                    if res[0] != res[1] or tuple(copy.info()) != tuple(orig.info()) or dict(copy.__cache__()) != dict(orig.__cache__()) or keys[0] != keys[1]:
                        bad = 'call %r %r: original %r info %r, copy %r info %r; keys %r' % (args, kwds, res[0], tuple(orig.info()), res[1], tuple(copy.info()), keys)
                        break
                if bad:
                    out['violations'].append({'clause': 'lockstep_equal', 'klass': klass, 'message': '%s.%s keymap %s ignore=%r: %s' % (modname, cls, kmname, ign, bad), 'witness': wit})
        out['samples'].append({'configuration': '%s.%s cached method, ignore self' % (modname, cls)})
    except Exception:
        out['violations'].append({'clause': 'harness', 'klass': 'harness crashed on %s method' % cls, 'message': traceback.format_exc()[-700:], 'witness': {'unit': list(unit)}})
    return out


def run_persistent(unit):
    """a persistent archive remains shared storage: the round trip must not change it, and the clone is served from it"""
    import dill
    import os
    import shutil
    import tempfile
    modname, cls, purge, arch, kmkind, tol, plen = unit
    out = {'evaluations': 0, 'distinct': 0, 'violations': [], 'samples': [], 'counters': {'roundtrips': 0}}
    d = tempfile.mkdtemp(prefix='c20_', dir=os.environ.get('VERIF_SCRATCH', '/tmp'))
    try:
        for hi, hist in enumerate([[('call', 0), ('call', 1), ('dump',)], [('call', 0), ('call', 1), ('call', 3), ('call', 4)], [('call', 1), ('dump',), ('clear',)]]):
            loc = os.path.join(d, 'h%d.%s' % (hi, 'json' if arch == 'filejson' else 'store'))
            f = build(modname, cls, purge, arch + ':' + loc, 'string', None)
            for op in hist:
                apply(f, op)
            before = state(f)
            g = dill.loads(dill.dumps(f))
            out['counters']['roundtrips'] += 1
            out['distinct'] += 1
            out['evaluations'] += 2
            try:
                after_f, after_g = state(f), state(g)
            except Exception as e:      # noqa
                after_f, after_g = state(f), 'unreadable: %r' % (e,)
            if after_f['archive'] != before['archive'] or after_g != before:
                out['violations'].append({'clause': 'persistent_archive_survives_round_trip', 'klass': '%s on a persistent archive (%s)' % (cls, arch),
                                          'message': '%s.%s on %s after %r: before the round trip %r; afterwards the original sees archive %r and the clone is %r'
                                                     % (modname, cls, arch, hist, before, after_f['archive'], after_g),
                                          'witness': {'unit': list(unit), 'persistent': hi}})
                break
            # the archive is shared storage: an entry that is archived but not resident is LOADED by original and clone alike, and
            # what the clone dumps the original can load
            ok = True
            for step, op in enumerate([('clear',), ('call', 0), ('call', 1), ('call', 9), ('dump',), ('call', 9)]):
                target = g if step < 5 else f
                if step == 5:
                    apply(f, ('clear',))
                r = apply(target, op)
                out['evaluations'] += 1
                if step in (1, 2, 5) and op[0] == 'call':
                    i = target.info()
                    want_archived = ('call', op[1]) in hist or op[1] == 9
                    dumped = ('dump',) in hist or cls == 'no_cache' or step == 5
                    if r[0] != 'ret' or (want_archived and dumped and i.load == 0 and cls != 'no_cache' and i.miss > 0 and step == 5):
                        ok = False
                        out['violations'].append({'clause': 'persistent_archive_is_shared_storage', 'klass': '%s on a persistent archive (%s)' % (cls, arch),
                                                  'message': '%s.%s on %s after %r + round trip: step %d %r on the %s gives %r with info %r'
                                                             % (modname, cls, arch, hist, step, op, 'clone' if target is g else 'original', r, tuple(i)),
                                                  'witness': {'unit': list(unit), 'persistent': hi}})
                        break
                if r[0] == 'raise' and op[0] in ('dump', 'call'):
                    ok = False
                    out['violations'].append({'clause': 'persistent_archive_is_shared_storage', 'klass': '%s on a persistent archive (%s)' % (cls, arch),
                                              'message': '%s.%s on %s after %r + round trip: %r on the %s raises %r' % (modname, cls, arch, hist, op, 'clone' if target is g else 'original', r),
                                              'witness': {'unit': list(unit), 'persistent': hi}})
                    break
            if not ok:
                break
        out['samples'].append({'configuration': '%s.%s on %s' % (modname, cls, arch)})
    except Exception:
        out['violations'].append({'clause': 'harness', 'klass': 'harness crashed on %s filejson' % cls, 'message': traceback.format_exc()[-700:],
                                  'witness': {'unit': list(unit)}})
    finally:
        shutil.rmtree(d, ignore_errors=True)
    return out


def _reduce_configs(clsname):
    import klepto.archives as A
    import klepto.keymaps as KM
    for maxsize in (1, 2, 5):
        for purge in (False, True):
            for tol in (None, 1):
                for deep in (False, True):
                    for ignore in (None, 'y', ('y', 0)):
                        kw = {'cache': A.dict_archive('r', cached=True), 'keymap': KM.stringmap(), 'ignore': ignore, 'tol': tol, 'deep': deep}
                        if clsname not in ('no_cache', 'inf_cache'):
                            kw.update(maxsize=maxsize, purge=purge)
                        yield {k: v for k, v in kw.items() if k not in ('cache', 'keymap')}, kw


def _reduce_differs(modname, clsname, kw):
    import importlib
    cls = getattr(importlib.import_module(modname), clsname)
    d = cls(**kw)
    rcls, rargs = d.__reduce__()[:2]
    e = rcls(*rargs)
    if type(e) is not type(d):
        return 'reconstruction is a %s' % type(e).__name__
    for k in sorted(d.__state__):
        a, b = d.__state__[k], e.__state__.get(k)
        if k == 'roundargs':
            same = type(a) is type(b) or getattr(a, '__qualname__', 1) == getattr(b, '__qualname__', 2)
        elif k in ('cache', 'keymap'):
            same = a is b
        else:
            same = (a == b and type(a) is type(b))
        if not same:
            return '__state__[%r] is %r in the original and %r after  cls(*__reduce__()[1])' % (k, a, b)
    return None


def level_a_search(name):
    """a concrete configuration on which  cls(*d.__reduce__()[1])  differs from d, for a failed Level-A reduce obligation"""
    head = name.split('.__reduce__')[0]          # '_cache:lru_cache'
    if ':' not in head:
        return None
    modfile, clsname = head.split(':')
    modname = 'klepto.' + modfile
    for label, kw in _reduce_configs(clsname):
        try:
            why = _reduce_differs(modname, clsname, kw)
        except Exception as e:      # noqa
            why = 'raises %r' % (e,)
        if why:
            return {'reduce': [modname, clsname, label]}
    return None


def replay(w):
    if 'method' in w:
        r = run_method(tuple(w['unit']))
        vs = [v for v in r['violations'] if v['witness'].get('method') == w['method']] or r['violations']
        return bool(vs), (vs[0]['message'][:600] if vs else 'the clone of the cached method continues in lock-step')
    if 'reduce' in w:
        modname, clsname, label = w['reduce']
        for lab, kw in _reduce_configs(clsname):
            if lab == label or list(lab.items()) == list(label.items()) or {k: (list(v) if isinstance(v, tuple) else v) for k, v in lab.items()} == label:
                try:
                    why = _reduce_differs(modname, clsname, kw)
                except Exception as e:      # noqa
                    why = 'raises %r' % (e,)
                return bool(why), '%s.%s(**%r): %s' % (modname, clsname, lab, why or 'reconstruction has an equal configuration')
        return False, 'configuration %r not in scope' % (label,)
    if 'persistent' in w:
        r = run_persistent(tuple(w['unit']))
        return bool(r['violations']), (r['violations'][0]['message'][:600] if r['violations'] else 'archive unchanged, clone equal')
    if 'prefix' not in w:
        return False, 'no replayable input recorded: %r' % (w,)
    import dill
    modname, cls, purge, arch, kmkind, tol, plen = w['unit']
    f = build(modname, cls, purge, arch, kmkind, tol)
    for oi in w['prefix']:
        apply(f, PREFIX_OPS[oi])
    try:
        g = dill.loads(dill.dumps(f))
    except Exception as e:      # noqa
        return True, 'dill round trip fails: %r' % (e,)
    if state(f) != state(g):
        return True, 'after %r the clone is %r but the original is %r' % ([PREFIX_OPS[i] for i in w['prefix']], state(g), state(f))
    for step, op in enumerate(CONTS[w['cont']]):
        r0, r1 = apply(f, op), apply(g, op)
        if r0 != r1 or state(f) != state(g):
            return True, 'after %r + round trip, step %d %r: original %r %r, clone %r %r' % ([PREFIX_OPS[i] for i in w['prefix']], step, op, r0, state(f), r1, state(g))
    h = dill.loads(dill.dumps(f))
    before = state(f)
    for op in [('call', 7), ('call', 8), ('call', 9), ('clear',)]:
        apply(h, op)
    if state(f) != before:
        return True, 'continuing a clone changed the original from %r to %r' % (before, state(f))
    return False, 'original and clone agree'


def level_a(tier):
    """klepto's own part of the round trip, proved by pyvc: decorator.__reduce__() + cls(*args) reconstructs an equal configuration (x12)"""
    from checks import wrapperprops
    la = wrapperprops.level_a_summary('C20', tier)
    lr = wrapperprops.rounding_level_a('obligations_reduce')
    return {'obligations': la['obligations'] + lr['obligations'], 'discharged': la['discharged'] + lr['discharged'],
            'failed': la['failed'] + lr['failed'], 'functions': sorted(set(la['functions']) | set(lr['functions'])),
            'ms': round(la['ms'] + lr['ms'], 1), 'unsupported': la['unsupported'] + lr['unsupported']}
