"""C04 -- persistence: a fresh handle or process sees exactly what was written (bounded stand-in).

Contract monitors on the real archives: after a write history, (1) a fresh handle in the same process, (2) a fresh
handle in a fresh interpreter, (3) a handle rebuilt from the reported state, (4) copy(), (5) a dill round trip of the
handle all read exactly the written contents (keys of their original type, values equal); (6) stored values are
snapshots taken at store time; (7) merely opening an archive does not change it.
"""
import os
import random
import subprocess
import sys
import traceback

from bounded import archives as AR

VERIF = os.path.dirname(os.path.dirname(os.path.abspath(__file__)))
CONTRACTS = ['klepto._archives.{file_archive,dir_archive,sqltable_archive}: __init__ __asdict__ __getitem__ keys __setitem__ __delitem__ pop update '
             'clear copy state __reduce__', 'klepto.archives.<kind>(name, cached=False) constructors (re-open)']
RULE = ('one evaluation = one reader placement (same handle / fresh handle / fresh process / rebuilt from state / copy / unpickled) compared '
        'with the dict model after one write history; distinct_nontrivial = distinct (configuration, history) pairs')
SCOPE = {
    'quick': '9 persistent configurations (file pickle/json/source-text, dir pickle/compressed/memmap/json/source-text, sqlite table); 11 fixed (4 of them write one key several times: overwrite-then-remove, set back to an earlier value) and 9 seeded '
             'write histories of <=8 operations over 8 keys (strings incl. "-"/"_", int, tuple, bytes where accepted) and 6 values (nested containers, '
             'floats incl. inf, bytes, None); plus snapshot and re-open probes',
    'thorough': 'as quick with 64 histories of <=12 operations',
}
ASSUMPTIONS = ['bounded scope, not a proof', 'the file system and sqlite show every process the same bytes', 'serialized=False archives: the current '
               'directory is importable', 'keys/values restricted to what the backend accepts (json: str keys, JSON-native values; sqlite: basic types)']


FIXED = [[('set', 0), ('set', 1), ('clear', 0)], [('set', 0), ('pop', 0)], [('set', 0), ('set', 1), ('pop', 1)],
         [('update', 0), ('clear', 0), ('set', 2)], [('set', 0), ('update', 1)], [('set', 0), ('set', 0)], [('set', 3), ('clear', 0), ('clear', 0)],
         # one key written several times (a backend that keeps a row or a file per write must not let an older one show through):
         # overwritten then removed; set back to a value it held before; overwritten, removed, written again
         [('set', 1, 0), ('set', 0, 0), ('set', 0, 1), ('pop', 0)], [('set', 0, 0), ('set', 0, 1), ('set', 0, 0)],
         [('set', 0, 1), ('set', 0, 0), ('pop', 0), ('set', 0, 1), ('set', 1, 1)], [('set', 0, 0), ('set', 0, 1), ('clear', 0), ('set', 1, 0)]]


def units(tier, seed):
    n, ln = (64, 12) if tier == 'thorough' else (20, 8)
    return [('hist', cid, n, ln, seed) for (cid, k, w, d) in AR.configs() if AR.is_persistent(cid)]


def _main_class_value():
    """an instance of a class that exists only in the writer's __main__ (dill stores such classes by value)"""
    m = sys.modules['__main__']
    if not hasattr(m, 'C04Local'):
        exec("class C04Local(object):\n    def __init__(self, v):\n        self.v = v\n    def __eq__(self, o):\n"
             "        return type(o).__name__ == 'C04Local' and o.v == self.v\n    def __hash__(self):\n        return hash(self.v)\n"
             "    def __repr__(self):\n        return 'C04Local(%r)' % (self.v,)\n", m.__dict__)
    return m.C04Local(7)


def _values(dom, cid=None):
    base = list(AR.VALUES[dom])
    if dom in ('fs', 'any', 'source'):
        base += [float('inf'), b'\x00\xff', (1, (2, [3]))]
    if cid in ('file-pickle', 'dir-pickle'):
        base.append(_main_class_value())
    return base


def fresh_process(cid, root, name='store'):
    e = dict(os.environ)
    e['PYTHONDONTWRITEBYTECODE'] = '1'
    e['PYTHONHASHSEED'] = '4711'      # another process is another hash seed: what is found on disk must not depend on it
    pp = [VERIF] + ([os.environ['KLEPTO_REPO']] if os.environ.get('KLEPTO_REPO') else [])
    e['PYTHONPATH'] = os.pathsep.join(([os.environ['KLEPTO_REPO']] if os.environ.get('KLEPTO_REPO') else []) + [VERIF])
    p = subprocess.run([sys.executable, '-m', 'bounded.archive_read', cid, root, name], cwd=VERIF, env=e, capture_output=True, text=True, timeout=300)
    out = (p.stdout.strip().splitlines() or ['ERR no output: ' + p.stderr[-200:]])[-1]
    return out


def canon(m):
    return 'OK %d %r' % (len(m), sorted((repr(k), type(k).__name__, repr(v)) for k, v in m.items()))


def read_all(a):
    return 'OK %d %r' % (len(a), sorted((repr(k), type(k).__name__, repr(a[k])) for k in list(a.keys())))


def klass_of(cid, placement, msg=''):
    if cid.endswith('-source'):
        return '%s: source-text archive read back through the import system (finder / bytecode caches)' % cid.split('-')[0]
    return '%s: %s' % (cid, placement)


def run_unit(unit):
    _, cid, nhist, ln, seed = unit
    out = {'evaluations': 0, 'distinct': 0, 'violations': [], 'samples': [], 'counters': {}}
    seen = set()
    if '' not in sys.path:
        sys.path.insert(0, '')
    dom = AR.kd(cid)
    keys, values = AR.KEYS[dom], _values(dom, cid)
    if cid.startswith('dir'):
        # one key of each pair that a dir archive maps to one entry name (C03's listed finding): aliasing is not this property
        keys = [k for k in keys if k not in ('a_b', '1')]
    try:
        for h in range(nhist):
            root = AR.new_root()
            try:
                rnd = random.Random('%s/%s/%d' % (cid, seed, h))
                a = AR.open_archive(cid, root)
                model = {}
                hist = []
                # the first histories are fixed: they END in each kind of mutation (the last write of a session is the one
                # a later session depends on); the rest are seeded
                fixed = FIXED[h] if h < len(FIXED) else None
                nsteps = len(fixed) if fixed else rnd.randrange(2, ln + 1)
                for step in range(nsteps):
                    k = rnd.choice(keys)
                    r = rnd.random()
                    if fixed:
                        k = keys[fixed[step][1] % len(keys)]
                        r = {'set': 0.1, 'pop': 0.6, 'update': 0.8, 'clear': 0.87, 'mut': 0.95}[fixed[step][0]]
                    if r < 0.55:
                        v = values[-1] if (fixed and h == 5) else rnd.choice(values)
                        if fixed and len(fixed[step]) > 2:
                            v = values[fixed[step][2] % len(values)]
                        a[k] = v
                        model[k] = v
                        hist.append(('set', repr(k), repr(v)))
                    elif r < 0.7:
                        a.pop(k, None)
                        model.pop(k, None)
                        hist.append(('pop', repr(k)))
                    elif r < 0.85:
                        k2 = rnd.choice(keys)
                        d = {k: rnd.choice(values), k2: rnd.choice(values)}
                        a.update(d)
                        model.update(d)
                        hist.append(('update', repr(d)))
                    elif r < 0.9:
                        a.clear()
                        model = {}
                        hist.append(('clear',))
                    elif dom == 'sql':
                        continue        # the sqlite table stores basic values only: no mutable value to snapshot
                    else:
                        mut = [1, [2]]
                        a[k] = mut
                        model[k] = [1, [2]]
                        mut[1].append('mutated after the store')
                        mut.append('mutated after the store')
                        hist.append(('set-then-mutate', repr(k)))
                        # ... and what a read hands out is a snapshot too: changing it does not change the archive, not even
                        # when the same handle writes another key afterwards
                        try:
                            back = a[k]
                            back.append('mutated after reading it back')
                            back[1].append('mutated after reading it back')
                            k3 = keys[(keys.index(k) + 1) % len(keys)]
                            a[k3] = 'written after the read-back'
                            model[k3] = 'written after the read-back'
                            hist.append(('read-back-mutate-then-set', repr(k), repr(k3)))
                        except Exception:      # noqa
                            pass
                # keys that alias in a dir archive are C03's finding: keep them out of this property's histories
                want = canon(model)
                out['distinct'] += 1
                placements = [('same handle', lambda: read_all(a)),
                              ('fresh handle, same process', lambda: read_all(AR.open_archive(cid, root))),
                              ('fresh process', lambda: fresh_process(cid, root)),
                              ('rebuilt from .state', lambda: read_all(_rebuild(a))),
                              ('copy()', lambda: read_all(a.copy())),
                              ('dill round trip of the handle', lambda: read_all(_roundtrip(a))),
                              ('fresh handle after re-opening twice', lambda: (AR.open_archive(cid, root), read_all(AR.open_archive(cid, root)))[1])]
                for (pl, fn) in placements:
                    out['evaluations'] += 1
                    try:
                        got = fn()
                    except Exception as e:      # noqa
                        got = 'ERR %s: %s' % (e.__class__.__name__, str(e)[:160])
                    if got != want:
                        kl = klass_of(cid, pl)
                        if ('reads_what_was_written', kl) not in seen:
                            seen.add(('reads_what_was_written', kl))
                            out['violations'].append({'clause': 'reads_what_was_written', 'klass': kl,
                                                      'message': '%s after %r: %s reads %s, written: %s' % (cid, hist, pl, got[:300], want[:300]),
                                                      'witness': {'cid': cid, 'seed': seed, 'hist': h, 'len': ln, 'placement': pl}})
                if not out['samples']:
                    out['samples'].append({'configuration': cid, 'history': hist[:6], 'readers': [p for p, _ in placements]})
            finally:
                AR.drop_root(root)
    except Exception:
        out['violations'].append({'clause': 'harness', 'klass': 'harness crashed on %s' % cid, 'message': traceback.format_exc()[-700:],
                                  'witness': {'cid': cid}})
    return out


def _rebuild(a):
    """a handle of the same class built from the reported state, the way klepto's own copy() does it"""
    st = a.state
    cls = type(a)
    name = cls.__name__
    if 'dir_archive' in name:
        return cls(dirname=st['id'], **{k: v for k, v in st.items() if k != 'id'})
    if 'file_archive' in name:
        return cls(filename=st['id'], **{k: v for k, v in st.items() if k != 'id'})
    return cls(database=st['root'], table=st['id'], **{k: v for k, v in st.items() if k not in ('id', 'root')})


def _roundtrip(a):
    import dill
    return dill.loads(dill.dumps(a))


def replay(w):
    if 'hist' not in w:
        return False, 'no replayable input recorded: %r' % (w,)
    r = run_unit(('hist', w['cid'], w['hist'] + 1, w['len'], w['seed']))
    for v in r['violations']:
        if v['witness'].get('placement') == w['placement'] and v['witness'].get('hist') == w['hist']:
            return True, v['message'][:600]
    return False, '%s: history %d reads back as written from "%s"' % (w['cid'], w['hist'], w['placement'])
