"""C11 -- ignored arguments never influence the key; all others still do (bounded)."""
from bounded import keychecks as KC

CONTRACTS = ['klepto._inspect._keygen (and through it klepto._inspect.signature)']
RULE = ('one evaluation = _keygen output of one valid call under one ignore specification, compared with the binding CPython '
        'produced with the selected arguments blanked out; the two must be in 1-1 correspondence over all calls of the callable; '
        'distinct_nontrivial = distinct blanked bindings per (callable, specification)')
SCOPE = {
    'quick': 'callables with <=2 positional-or-keyword parameters, optional *args, <=1 keyword-only parameter, optional **kw as function / '
             'bound method / callable instance / partial fixing positionals; ignore specifications: every subset of size <=2 of the parameter '
             'names, a foreign name, the indices 0,1,2, "*" and "**"; calls: 0..3 positionals x <=2 keywords, each also with every single '
             'argument slot changed to another value',
    'thorough': 'as quick with <=3 positional-or-keyword and <=2 keyword-only parameters and 0..4 positionals',
}
ASSUMPTIONS = ['bounded scope, not a proof', 'an index selects a positional slot (named or extra); a selected extra positional keeps its place '
               '(NULL placeholder), "*" / "**" drop all extra positionals / keywords', 'plain functions called with an explicit instance '
               '("self" ignoring) and partials that fix keywords are outside the scope']


def units(tier, seed):
    return KC.unit_list('thorough' if tier == 'thorough' else 'quick')


run_unit = KC.run_c11
replay = KC.replay_c11
