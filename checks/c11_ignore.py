"""C11 -- ignored arguments never influence the key; all others still do (bounded)."""
from bounded import keychecks as KC

CONTRACTS = ['klepto._inspect._keygen (and through it klepto._inspect.signature)']
RULE = ('one evaluation = _keygen output of one valid call under one ignore specification, compared with the binding CPython '
        'produced with the selected arguments blanked out; the two must be in 1-1 correspondence over all calls of the callable; '
        'distinct_nontrivial = distinct blanked bindings per (callable, specification)')
SCOPE = {
    'quick': 'callables with <=2 positional-or-keyword parameters, optional *args, <=1 keyword-only parameter, optional **kw as function / '
             'bound method / callable instance / partial fixing positionals; ignore specifications: every subset of size <=2 of the parameter '
             'names, a foreign name, the indices 0,1,2, "*" and "**"; calls: 0..3 positionals x <=2 keywords, each also with every single '
             'argument slot changed to another value',
    'thorough': 'as quick with <=3 positional-or-keyword and <=2 keyword-only parameters and 0..4 positionals',
}
ASSUMPTIONS = ['bounded scope, not a proof', 'an index selects a positional slot (named or extra); a selected extra positional keeps its place '
               '(NULL placeholder), "*" / "**" drop all extra positionals / keywords', 'plain functions called with an explicit instance '
               '("self" ignoring) and partials that fix keywords are outside the scope']


def units(tier, seed):
    return KC.unit_list('thorough' if tier == 'thorough' else 'quick') + [('method-names',)]


def run_unit(unit):
    if unit[0] == 'method-names':
        # a function named like a method of its first argument (count, join, ...) with that parameter ignored
        from bounded import reserved_names as RN
        return RN.run_method_names('c11')
    return KC.run_c11(unit)


def _dispatch_probe(modname, clsname, how):
    """build the decorator with maxsize passed as `how` and a full configuration; -> None or what was not handed on"""
    import importlib
    import klepto.keymaps as KM
    import klepto.archives as A
    cls = getattr(importlib.import_module(modname), clsname)
    cfg = {'cache': A.dict_archive('d', cached=True), 'keymap': KM.stringmap(), 'ignore': ('y', 'z'), 'tol': 2, 'deep': True}
    pos, kw = {'positional 0': ((0,), {}), 'keyword 0': ((), {'maxsize': 0}), 'positional None': ((None,), {}), 'keyword None': ((), {'maxsize': None}),
               'positional M': ((3,), {}), 'keyword M': ((), {'maxsize': 3}), 'default': ((), {})}[how]
    d = cls(*pos, **dict(kw, **cfg))
    for k, v in cfg.items():
        got = d.__state__.get(k)
        if not (got is v or (k in ('ignore', 'tol', 'deep') and got == v)):
            return '%s.%s(%s, **configuration) is a %s whose %r is %r, not the %r that was passed' % (
                modname, clsname, how, type(d).__name__, k, got, v)
    return None


def level_a_search(name):
    head = name.split('.__new__')[0]
    if ':' not in head or 'dispatch' not in name:
        return None
    modfile, clsname = head.split(':')
    for how in ('positional 0', 'keyword 0', 'positional None', 'keyword None', 'positional M', 'keyword M', 'default'):
        try:
            why = _dispatch_probe('klepto.' + modfile, clsname, how)
        except Exception as e:      # noqa
            why = 'raises %r' % (e,)
        if why:
            return {'dispatch': ['klepto.' + modfile, clsname, how]}
    return None


def replay(w):
    if 'dispatch' in w:
        try:
            why = _dispatch_probe(*w['dispatch'])
        except Exception as e:      # noqa
            why = 'raises %r' % (e,)
        return bool(why), why or 'the whole configuration is handed on'
    if 'methodname' in w:
        from bounded import reserved_names as RN
        return RN.replay(w)
    return KC.replay_c11(w)


def level_a(tier):
    """the maxsize dispatch (__new__) of the bounded decorator classes hands `ignore` on to the class it picks (x8 classes x7 ways of
    passing maxsize), proved by pyvc"""
    from checks import wrapperprops
    return wrapperprops.level_a_summary('C11', tier)
