"""C19 -- validate/isvalid agree with Python's own argument binding (bounded stand-in; DESIGN.md 5 C19).

Contract (bounded/sidecars.py, deal): isvalid(f, *a, **k) <=> calling the stub f(*a, **k) gets past argument
binding; validate raises TypeError iff it does not, raises nothing else; the callable is never entered.
Values are irrelevant to binding, so the enumeration of (callable shape, call shape) is complete for its scope.
"""
import deal

from bounded import shapes as S
from bounded import sidecars as SC

CONTRACTS = ['klepto._inspect.isvalid', 'klepto._inspect.validate', 'klepto._inspect.signature (through them)']
RULE = ('one evaluation = one (callable, call form) pair checked against both contracts; all pairs are distinct by '
        'construction; non-trivial = every pair (each is a different binding question); distinct_nontrivial counts pairs')
SCOPE = {
    'quick': 'callables: <=2 positional-or-keyword parameters (with/without defaults), optional *args, <=1 keyword-only '
             'parameter (with/without default), optional **kw; as function, bound method, callable instance and partial fixing <=2 '
             'positionals and/or one keyword; calls: 0..3 positionals x every subset (<=2) of the parameter names + one foreign name',
    'reserved names': 'both tiers: every parameter name of klepto\'s own signatures as the name of a user parameter (6 callable forms, every way of passing it, plus two invalid calls)',
    'thorough': 'callables: <=3 positional-or-keyword parameters, optional *args, <=2 keyword-only parameters, optional **kw; '
                'function, bound method, callable instance, partials fixing <=2 positionals and/or one keyword; calls: 0..4 '
                'positionals x every subset (<=3) of the parameter names + one foreign name',
}
SCOPE = {t: SCOPE[t] + '; ' + SCOPE['reserved names'] for t in ('quick', 'thorough')}
ASSUMPTIONS = ['bounded scope (see coverage.scope): not a proof', 'ground truth = actually calling a side-effect-free stub of the same shape '
               '(CPython\'s binder)', 'argument values are irrelevant to binding']


def units(tier, seed):
    if tier == 'thorough':
        shs = S.shapes(3, 2)
        return [('thorough', i) for i in range(len(shs))] + _reserved_units()
    shs = S.shapes(2, 1)
    return [('quick', i) for i in range(len(shs))] + _reserved_units()


def _reserved_units():
    from bounded import reserved_names as RN
    n = len(RN.names())
    return [('reserved', lo, min(lo + 16, n)) for lo in range(0, n, 16)]


def _params(mode):
    return ((3, 2), 4, 3) if mode == 'thorough' else ((2, 1), 3, 2)


def klass_of(shape, form, args, kwitems, truth, got):
    """witness class of a disagreement (for known findings): which feature of the signature is involved"""
    kwo = [n for (n, d) in shape.kwo]
    if kwo:
        return 'callable has keyword-only parameters'
    return '%s: python %s, klepto %s' % (form, 'accepts' if truth else 'rejects', got)


def run_unit(unit):
    if unit[0] == 'reserved':
        from bounded import reserved_names as RN
        return RN.run_c19(unit[1], unit[2])
    mode, idx = unit
    (npos, nkwo), maxpos, maxkw = _params(mode)
    shape = S.shapes(npos, nkwo)[idx]
    entered = []
    out = {'evaluations': 0, 'distinct': 0, 'violations': [], 'samples': [], 'counters': {}}
    for ci, (form, c, desc) in enumerate(S.make_callables(shape, entered)):
        probe = SC.Probe(c, entered, desc)
        for (args, kwi) in S.call_forms(shape, maxpos, maxkw):
            out['evaluations'] += 2
            out['distinct'] += 1
            for fn, name in ((SC.isvalid_c, 'isvalid'), (SC.validate_c, 'validate')):
                try:
                    fn(probe, args, kwi)
                except deal.PostContractError as e:
                    truth = probe.truth(args, kwi)[0]
                    out['violations'].append({
                        'clause': str(e.message).split(':')[0],
                        'klass': klass_of(shape, form, args, kwi, truth, 'disagrees'),
                        'message': '%s: %s; call args=%r kwds=%r; python binds: %s' % (desc, e.message, args, kwi, truth),
                        'witness': {'mode': mode, 'shape': idx, 'callable': ci, 'desc': desc, 'nargs': len(args),
                                    'kwnames': [k for k, _ in kwi], 'fn': name}})
        if not out['samples']:
            out['samples'].append({'callable': desc, 'call': 'f(<2 positionals>, %s=...)' % (shape.names() + [S.FOREIGN])[0]})
    return out


def replay(w):
    if 'reserved' in w:
        from bounded import reserved_names as RN
        return RN.replay(w)
    (npos, nkwo), maxpos, maxkw = _params(w['mode'])
    shape = S.shapes(npos, nkwo)[w['shape']]
    entered = []
    form, c, desc = S.make_callables(shape, entered)[w['callable']]
    probe = SC.Probe(c, entered, desc)
    args = tuple(S.pos_value(i) for i in range(w['nargs']))
    kwi = [(n, S.kw_value(n)) for n in w['kwnames']]
    fn = SC.isvalid_c if w['fn'] == 'isvalid' else SC.validate_c
    try:
        fn(probe, args, kwi)
        return False, '%s: contract holds for args=%r kwds=%r' % (desc, args, kwi)
    except deal.PostContractError as e:
        return True, '%s: %s violated for args=%r kwds=%r (python binds: %s)' % (desc, e.message, args, kwi, probe.truth(args, kwi)[0])
