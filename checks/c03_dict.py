"""C03 -- every archive type refines a Python dict (bounded stand-in).

Contract (checked by a run-time monitor after every operation of the real archive): the operation returns the same
value or raises KeyError exactly as a dict holding the same contents would, leaves the same contents, a failing
operation leaves the contents unchanged and the archive usable, distinct keys never alias, operations on one archive
never change an archive stored under another name, == compares contents, copy(name) yields an equal archive that is
independent afterwards, the null archive discards every write.

Two kinds of work units per configuration: (1) every single operation from every small state (the state is rebuilt
through the archive's own API), exhaustive for the stated domain; (2) seeded operation sequences without reset, to
expose history dependence.
"""
import itertools
import random
import traceback

from bounded import archives as AR

CONTRACTS = ['klepto._archives.{dict_archive,null_archive,file_archive,dir_archive,sqltable_archive (sqlite)}: __setitem__ __getitem__ '
             '__delitem__ __contains__ __len__ __iter__ keys values items get pop popitem popkeys setdefault update clear copy __eq__',
             'constructed through klepto.archives.<kind>(name, cached=False, ...)']
RULE = ('one evaluation = one mapping operation on a real archive compared with the same operation on a Python dict (result / exception '
        'class / contents afterwards / contents of a sibling archive); distinct_nontrivial = distinct (configuration, prior state, '
        'operation) triples')
SCOPE = {
    'quick': '11 configurations (dict, null, file pickle/json/source-text, dir pickle/compressed/memmap/json/source-text, sqlite table); keys: '
             'the strings a b a-b a_b "1", the int 1, a tuple, bytes (restricted to what the backend accepts); 5 values + one un-encodable value; '
             'prior states: all with <=2 keys; every operation of the mapping protocol with every key; plus 40 seeded sequences of 8 operations per configuration',
    'thorough': 'as quick with prior states of <=3 keys and 200 seeded sequences of 12 operations per configuration',
}
ASSUMPTIONS = ['bounded scope, not a proof', 'oracle: Python dict', 'serialized=False (source-text) archives: the current directory is importable ("" on sys.path)', 'keys the backend accepts: json and the sqlite table take a restricted key/value domain (stated in bounded/archives.py)',
               'the file system behaves (no faults): crash atomicity is C13']

MISSING = object()


def units(tier, seed):
    us = []
    for (cid, kind, kw, dom) in AR.configs():
        us.append(('single', cid, 3 if tier == 'thorough' else 2))
        if cid != 'null':
            us.append(('single', cid, 2, 'prefix-keys'))
        n, ln = (200, 12) if tier == 'thorough' else (40, 8)
        us.append(('walk', cid, n, ln, seed))
    return us


def _ops(keys, values, cid=None):
    ops = []
    for k in keys:
        ops += [('getitem', k), ('delitem', k), ('contains', k), ('get', k), ('get', k, 'dflt'), ('pop', k), ('pop', k, 'dflt'),
                ('setdefault', k, values[1]), ('setitem', k, values[0]), ('setitem', k, values[3])]
        if cid not in ('dict', 'null'):
            ops.append(('setitem_bad', k))      # in memory every value "encodes
    # a default that IS the stored value (None, a small int, a short string are shared objects): the key is present all the same
    for v in values:
        ops += [('pop', keys[0], v), ('popkeys', (keys[0],), v), ('setdefault', keys[-1], v)]
    if cid not in ('dict', 'null'):
        ops.append(('setitem_bad_then_other_handle', keys[0]))
    ops += [('len',), ('keys',), ('values',), ('items',), ('iter',), ('popitem',), ('clear',), ('copy',), ('copy_named',), ('eq',), ('eq_none',),
            ('update', ((keys[0], values[2]), (keys[-1], values[4]))), ('update_kw',),
            ('popkeys', (keys[0], keys[1])), ('popkeys', (keys[0], keys[1]), 'dflt'),
            ('popkeys', (keys[0], keys[1], keys[0])), ('popkeys', (keys[0], keys[0]), 'dflt'), ('views_live',), ('eq_memory',), ('update_only_kw',), ('update_nothing',)]
    return ops


def apply_model(m, op):
    """-> (result | exception class, new model)"""
    m = dict(m)
    name = op[0]
    try:
        if name == 'getitem':
            return m[op[1]], m
        if name == 'delitem':
            del m[op[1]]
            return None, m
        if name == 'contains':
            return op[1] in m, m
        if name == 'get':
            return m.get(*op[1:]), m
        if name == 'pop':
            return m.pop(*op[1:]), m
        if name == 'setdefault':
            return m.setdefault(op[1], op[2]), m
        if name == 'setitem':
            m[op[1]] = op[2]
            return None, m
        if name == 'setitem_bad':
            return 'SOME-ERROR', m       # the value cannot be encoded: any exception, contents unchanged
        if name == 'len':
            return len(m), m
        if name in ('keys', 'iter'):
            return sorted(map(repr, m.keys())), m
        if name == 'values':
            return sorted(map(repr, m.values())), m
        if name == 'items':
            return sorted(map(repr, m.items())), m
        if name == 'popitem':
            if not m:
                return KeyError, m
            return 'ANY-ITEM', m
        if name == 'clear':
            return None, {}
        if name in ('copy', 'copy_named', 'eq', 'eq_none', 'setitem_bad_then_other_handle', 'views_live', 'eq_memory'):
            return True, m
        if name == 'update':
            m.update(dict(op[1]))
            return None, m
        if name == 'update_kw':
            m.update({}, kwk='kwv')
            return None, m
        if name == 'update_only_kw':
            m.update(kwk='kwv')
            return None, m
        if name == 'update_nothing':
            m.update()
            return None, m
        if name == 'popkeys':
            ks = op[1]
            if len(op) == 3:
                return [m.pop(k, op[2]) for k in ks], m
            trial = dict(m)         # all or nothing, also when a key is listed twice
            try:
                r = [trial.pop(k) for k in ks]
            except KeyError:
                return KeyError, dict(m)
            return r, trial
    except KeyError:
        return KeyError, m
    raise ValueError(op)


def apply_real(a, op, ctx):
    name = op[0]
    if name == 'getitem':
        return a[op[1]]
    if name == 'delitem':
        del a[op[1]]
        return None
    if name == 'contains':
        return op[1] in a
    if name == 'get':
        return a.get(*op[1:])
    if name == 'pop':
        return a.pop(*op[1:])
    if name == 'setdefault':
        return a.setdefault(op[1], op[2])
    if name == 'setitem':
        a[op[1]] = op[2]
        return None
    if name == 'setitem_bad':
        try:
            a[op[1]] = AR.Unencodable()
        except Exception:       # noqa -- any exception is acceptable for a value that cannot be encoded
            return 'SOME-ERROR'
        return 'SOME-ERROR' if ctx['cid'] in ('null', 'dict') else 'ACCEPTED'
    if name == 'setitem_bad_then_other_handle':
        # after a failed store the archive is fully usable -- also through another handle on the same store
        try:
            a[op[1]] = AR.Unencodable()
        except Exception:       # noqa
            pass
        b = AR.open_archive(ctx['cid'], ctx['root'], 'store')
        b['probe'] = 'p'
        ok = b['probe'] == 'p'
        del b['probe']
        return bool(ok)
    if name == 'len':
        return len(a)
    if name == 'keys':
        return sorted(map(repr, a.keys()))
    if name == 'iter':
        return sorted(map(repr, iter(a)))
    if name == 'values':
        return sorted(map(repr, a.values()))
    if name == 'items':
        return sorted(map(repr, a.items()))
    if name == 'popitem':
        k, v = a.popitem()
        ctx['popped'] = (k, v)
        return 'ANY-ITEM'
    if name == 'clear':
        return a.clear()
    if name == 'views_live':
        # keys()/values()/items() are views: like a dict's they show the contents at the time they are LOOKED AT, not at the time
        # they were taken
        kv, vv, iv = a.keys(), a.values(), a.items()
        if ctx['cid'] == 'null':
            return True
        a['zz-view'] = 'vv'
        try:
            cur = AR.contents(a)
            ok = (sorted(map(repr, kv)) == sorted(map(repr, cur.keys())) and sorted(map(repr, vv)) == sorted(map(repr, cur.values()))
                  and sorted(map(repr, iv)) == sorted(map(repr, cur.items())) and ('zz-view' in kv) and (('zz-view', 'vv') in iv) and len(kv) == len(cur))
        finally:
            del a['zz-view']
        return bool(ok)
    if name == 'eq_memory':
        # stores that have no location of their own (the default in-memory database of the SQL archives): every handle is its own
        # store, and equality still compares contents
        if ctx['cid'] != 'sqlite':
            return True
        import klepto.archives as KA
        x, y = KA.sqltable_archive(cached=False), KA.sqltable_archive(cached=False)
        x['k'] = 1
        y['z'] = 2
        ok = bool(x != y) and not bool(x == y)
        c = x.copy()
        ok = ok and bool(c == x)
        c['q'] = 3
        if AR.contents(c) != AR.contents(x):
            ok = ok and bool(c != x) and not bool(c == x)
        return bool(ok)
    if name == 'copy':
        c = a.copy()
        return (c == a) and AR.contents(c) == AR.contents(a)
    if name == 'copy_named':
        ctx['ncopy'] = ctx.get('ncopy', 0) + 1
        loc = AR.location(ctx['root'], ctx['cid'], 'copy%d' % ctx['ncopy'])
        c = a.copy(loc)
        before = AR.contents(a)
        ok = AR.contents(c) == before and (c == a)
        # independent afterwards: a write to the copy does not show in the original
        if ctx['cid'] != 'null':
            c['a'] = 'only-in-copy'
            ok = ok and AR.contents(a) == before
            # ... and equality compares contents, not names: once they differ the two are unequal
            if AR.contents(c) != AR.contents(a):
                ok = ok and bool(c != a) and not bool(c == a)
        return ok
    if name == 'eq':
        other = AR.open_archive(ctx['cid'], ctx['root'], 'eqpeer')
        other.clear()
        for k, v in AR.contents(a).items():
            other[k] = v
        same = (a == other) and not (a != other)
        if ctx['cid'] != 'null':
            other['b'] = 'different'
            same = same and (a != other or AR.contents(a) == AR.contents(other))
        return bool(same)
    if name == 'eq_none':
        # same length, different key sets, the differing keys hold None: a dict comparison says "not equal"
        cur = AR.contents(a)
        nk = [k for k, v in cur.items() if v is None]
        if not nk or ctx['cid'] == 'null':
            return True
        other = AR.open_archive(ctx['cid'], ctx['root'], 'eqpeer2')
        other.clear()
        for k, v in cur.items():
            if k != nk[0]:
                other[k] = v
        other['b' if nk[0] != 'b' else 'a'] = None
        if AR.contents(other) == cur:
            return True
        return bool(a != other) and not bool(a == other)
    if name == 'update':
        return a.update(dict(op[1]))
    if name == 'update_kw':
        return a.update({}, kwk='kwv')
    if name == 'update_only_kw':
        return a.update(kwk='kwv')
    if name == 'update_nothing':
        return a.update()
    if name == 'popkeys':
        return a.popkeys(list(op[1]), *op[2:])
    raise ValueError(op)


def run_op(a, model, op, ctx):
    """perform op on the real archive and on the model -> list of violated clauses"""
    exp, m2 = apply_model(model, op)
    if ctx['cid'] == 'null' and op[0] in ('setitem', 'setdefault', 'update', 'update_kw', 'update_only_kw', 'update_nothing', 'setitem_bad'):
        m2 = {}           # the null archive discards every write
        if op[0] == 'setdefault':
            exp = op[2]
    ctx.pop('popped', None)
    try:
        got = apply_real(a, op, ctx)
    except KeyError:
        got = KeyError
    except Exception as e:      # noqa
        got = ('raised', e.__class__.__name__, str(e)[:80])
    bad = []
    if op[0] == 'popitem' and got == 'ANY-ITEM':
        k, v = ctx['popped']
        if k not in model or model[k] != v:
            bad.append(('result', 'popitem returned %r which is not an item of %r' % ((k, v), model)))
        m2 = dict(model)
        m2.pop(k, None)
    elif got != exp:
        bad.append(('result', '%r returned/raised %r, a dict holding %r gives %r' % (op, _r(got), model, _r(exp))))
    try:
        after = AR.contents(a)
    except Exception as e:      # noqa
        after = ('unreadable', e.__class__.__name__, str(e)[:80])
    if after != m2:
        bad.append(('contents', 'after %r on %r the archive holds %s, a dict would hold %r' % (op, model, _sr(after), m2)))
    try:
        n = len(a)
        if isinstance(after, dict) and n != len(after):
            bad.append(('len', 'len() is %d but %d keys are listed after %r' % (n, len(after), op)))
    except Exception:
        pass
    if ctx.get('sibling') is not None:
        try:
            sib = AR.contents(ctx['sibling'])
        except Exception as e:      # noqa
            sib = ('unreadable', str(e)[:80])
        if sib != ctx['sibling_model']:
            bad.append(('isolation', 'after %r the archive stored under another name holds %r instead of %r' % (op, sib, ctx['sibling_model'])))
    return bad, (after if isinstance(after, dict) else m2)


def _r(x):
    return 'KeyError' if x is KeyError else x


def _sr(x):
    try:
        return repr(x)
    except Exception:
        if isinstance(x, dict):
            return '{%s}' % ', '.join('%s: %s' % (_sr(k), _sr(v)) for k, v in x.items())
        return '<%s object whose repr raises>' % type(x).__name__


def klass_of(cid, op, clause, model):
    k = _klass_of(cid, op, clause, model)
    if cid == 'dir-source':
        return 'dir_archive(serialized=False): entries are read back through the import system (finder cache, package import of the key file)'
    if cid.startswith('dir'):
        key = op[1] if len(op) > 1 else None
        involved = list(model.keys()) + (list(key) if isinstance(key, tuple) and op[0] in ('update', 'popkeys') else [key])
        involved = [x[0] if isinstance(x, tuple) and op[0] == 'update' else x for x in involved]
        if any(isinstance(x, str) and x.startswith('.I_') for x in involved):
            return 'dir_archive: a key that begins with the marker of temporary entries (.I_) is stored but hidden from listings'
    if cid.startswith('dir') and 'coincide' in k:
        return 'dir_archive: distinct keys map to one entry name (str(key) with - replaced by _)'
    if cid.startswith('dir') and op[0] == 'setitem_bad':
        return 'dir_archive: a store that fails to encode leaves a partial entry behind'
    return k


def _klass_of(cid, op, clause, model):
    """witness class of a divergence: configuration family, operation, and which feature of the key is involved"""
    fam = cid.split('-')[0]
    key = op[1] if len(op) > 1 and not isinstance(op[1], tuple) or (len(op) > 1 and op[0] not in ('update', 'popkeys')) else None
    feat = ''
    allkeys = list(model.keys()) + ([key] if key is not None else [])
    names = [str(k).replace('-', '_') for k in allkeys]
    if len(set(names)) < len(set(map(repr, allkeys))):
        feat = 'keys whose str() coincide up to -/_ are involved'
    elif key is not None and not isinstance(key, str):
        feat = 'non-str key'
    return '%s %s: %s%s' % (cid if fam in ('file', 'dir') else fam, op[0], clause, ('; ' + feat) if feat else '')


_HANDLES = {}


def _setup(cid, root, model):
    import sys
    if '' not in sys.path:
        # serialized=False archives are read back with `import` after a chdir: the current directory must be
        # importable, as it is in an interactive session or under `python -m` (assumption, see ASSUMPTIONS)
        sys.path.insert(0, '')
    a = _HANDLES.get((cid, root))
    if a is None:
        a = _HANDLES[(cid, root)] = AR.open_archive(cid, root, 'store')
    a.clear()
    for k, v in model.items():
        a[k] = v
    return a


def run_unit(unit):
    out = {'evaluations': 0, 'distinct': 0, 'violations': [], 'samples': [], 'counters': {}}
    seen = set()
    cid = unit[1]
    dom = AR.kd(cid)
    keys, values = AR.KEYS[dom], AR.VALUES[dom]
    keyset = unit[3] if unit[0] == 'single' and len(unit) > 3 else None
    if keyset == 'prefix-keys':
        keys = AR.PREFIX_KEYS
    root = AR.new_root()
    try:
        sib = AR.open_archive(cid, root, 'sibling')
        sib_model = {} if cid == 'null' else {keys[0]: 'sibling-value'}
        sib.clear()
        for k, v in sib_model.items():
            sib[k] = v
        ctx = {'cid': cid, 'root': root, 'sibling': sib, 'sibling_model': sib_model}
        if unit[0] == 'single':
            maxn = unit[2]
            states = [{}]
            for n in range(1, maxn + 1):
                for ks in itertools.combinations(range(len(keys)), n):
                    states.append({keys[i]: values[(i + j) % len(values)] for j, i in enumerate(ks)})
            ops = _ops(keys, values, cid)
            for si, model in enumerate(states):
                if cid == 'null' and model:
                    continue
                for oi, op in enumerate(ops):
                    try:
                        a = _setup(cid, root, model)
                        start = AR.contents(a)
                    except Exception as e:      # noqa
                        _v(out, seen, 'setup', klass_of(cid, ('setitem',), 'setup', model) if cid == 'dir-source' else '%s: cannot build the prior state' % cid, 'building %r failed: %r' % (model, e),
                           {'unit': 'single', 'cid': cid, 'maxn': maxn, 'state': si, 'op': oi, 'keyset': keyset})
                        break
                    if start != model:
                        _v(out, seen, 'contents', klass_of(cid, ('setitem',), 'building a state', model),
                           'after clear() and storing %r the archive holds %r' % (model, start),
                           {'unit': 'single', 'cid': cid, 'maxn': maxn, 'state': si, 'op': -1, 'keyset': keyset})
                        break
                    out['evaluations'] += 1
                    out['distinct'] += 1
                    bad, _ = run_op(a, model, op, ctx)
                    for (clause, msg) in bad:
                        _v(out, seen, clause, klass_of(cid, op, clause, model), '%s: %s' % (cid, msg),
                           {'unit': 'single', 'cid': cid, 'maxn': maxn, 'state': si, 'op': oi, 'keyset': keyset})
            out['samples'].append({'configuration': cid, 'prior_states': len(states), 'operations_per_state': len(ops),
                                   'example': repr(ops[3])})
        else:
            _, _, nseq, ln, seed = unit
            ops = _ops(keys, values, cid)
            for s in range(nseq):
                rnd = random.Random('%s/%s/%d' % (cid, seed, s))
                a = _setup(cid, root, {})
                model = {}
                hist = []
                for step in range(ln):
                    oi = rnd.randrange(len(ops))
                    op = ops[oi]
                    hist.append(oi)
                    out['evaluations'] += 1
                    bad, model2 = run_op(a, model, op, ctx)
                    for (clause, msg) in bad:
                        _v(out, seen, clause, klass_of(cid, op, clause, model), '%s: after %d operations: %s' % (cid, step, msg),
                           {'unit': 'walk', 'cid': cid, 'seed': seed, 'seq': s, 'steps': list(hist)})
                    if bad:
                        break           # the models have diverged: continuing would only repeat it
                    model = apply_model(model, op)[1] if op[0] != 'popitem' else model2
                    if cid == 'null':
                        model = {}
                out['distinct'] += 1
            out['samples'].append({'configuration': cid, 'sequences': nseq, 'length': ln})
    except Exception:
        out['violations'].append({'clause': 'harness', 'klass': 'harness crashed on %s' % cid, 'message': traceback.format_exc()[-600:],
                                  'witness': {'unit': unit[0], 'cid': cid}})
    finally:
        AR.drop_root(root)
    return out


def _v(out, seen, clause, klass, message, witness):
    if (clause, klass) in seen:
        out['counters']['more_in_class'] = out['counters'].get('more_in_class', 0) + 1
        return
    seen.add((clause, klass))
    out['violations'].append({'clause': clause, 'klass': klass, 'message': message, 'witness': witness})


def replay(w):
    if 'steps' not in w and 'state' not in w:
        return False, 'no replayable input was recorded (the harness itself failed): %r' % (w,)
    cid = w['cid']
    dom = AR.kd(cid)
    keys, values = AR.KEYS[dom], AR.VALUES[dom]
    if w.get('keyset') == 'prefix-keys':
        keys = AR.PREFIX_KEYS
    ops = _ops(keys, values, cid)
    root = AR.new_root()
    try:
        sib = AR.open_archive(cid, root, 'sibling')
        sib.clear()
        sib_model = {} if cid == 'null' else {keys[0]: 'sibling-value'}
        for k, v in sib_model.items():
            sib[k] = v
        ctx = {'cid': cid, 'root': root, 'sibling': sib, 'sibling_model': sib_model}
        if w['unit'] == 'single':
            states = [{}]
            for n in range(1, w['maxn'] + 1):
                for ks in itertools.combinations(range(len(keys)), n):
                    states.append({keys[i]: values[(i + j) % len(values)] for j, i in enumerate(ks)})
            model = states[w['state']]
            a = _setup(cid, root, model)
            if w['op'] < 0:
                got = AR.contents(a)
                return got != model, '%s: after clear() and storing %r the archive holds %r' % (cid, model, got)
            bad, _ = run_op(a, model, ops[w['op']], ctx)
            return bool(bad), '%s: from %r: %s' % (cid, model, '; '.join(m for _, m in bad) or 'agrees with dict')
        a = _setup(cid, root, {})
        model = {}
        for oi in w['steps']:
            op = ops[oi]
            bad, model2 = run_op(a, model, op, ctx)
            if bad:
                return True, '%s: after %s: %s' % (cid, [ops[i][0] for i in w['steps']], '; '.join(m for _, m in bad))
            model = apply_model(model, op)[1] if op[0] != 'popitem' else model2
            if cid == 'null':
                model = {}
        return False, '%s: sequence agrees with dict' % cid
    finally:
        AR.drop_root(root)


def level_a(tier):
    """file_archive mapping glue, null_archive and dict_archive methods proved by pyvc over the assumed contract of
    file_archive.__asdict__/__save__ (contracts/archive_classes.py)"""
    from checks import wrapperprops
    # ... and those two primitives themselves (serialized=True), over the assumed file-system contract (contracts/fs_contracts.py)
    return wrapperprops.merge_level_a(wrapperprops.arch_level_a('C03'), wrapperprops.fs_level_a(('C03', 'C04')))
