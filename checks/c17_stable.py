"""C17 -- keys are stable across interpreter sessions (bounded).  The key path of the C09 scope is evaluated in fresh
interpreters under different PYTHONHASHSEEDs and the keys are compared group by group; plus writer/reader sessions on
persistent archives whose reader must be served by loads only."""
import json
import os
import subprocess
import sys
import tempfile
import shutil

VERIF = os.path.dirname(os.path.dirname(os.path.abspath(__file__)))
CONTRACTS = ['klepto._inspect._keygen', 'klepto.keymaps.* (.__call__/.encode/.encrypt)', 'klepto.crypto.hash/string/pickle',
             'end-to-end: klepto.inf_cache on dir_archive / file_archive / sqltable_archive']
RULE = ('one evaluation = the key of one valid call under one keymap configuration and ignore specification in one interpreter; '
        'distinct_nontrivial = (callable, configuration, ignore) groups whose key lists were compared across all seeds; end-to-end '
        'sessions are counted in coverage.counters')
SCOPE = {
    'quick': 'key path: callables with <=2 positional-or-keyword parameters, optional *args, <=1 keyword-only, optional **kw (function, bound '
             'method, callable instance); calls 0..3 positionals x ordered selections of <=2 keywords; 48 keymap configurations (no builtin '
             'hash), plus arguments that are instances (and the class itself) of a class defined in the session\'s __main__ under 9 serialising keymaps with serializer options (dill/pickle protocol, recurse, typed, composed maps) and under hashmap with every algorithm klepto.crypto.algorithms() lists, flat and non-flat; ignore in {(), every pair of parameter names, ("**",), ("*","**")}; 3 hash seeds.  Sessions: writer and reader processes '
             'with different hash seeds on dir/file/sqlite archives x 10 keymaps (typed ones included), 9 calls, the reader spelling every call with its keywords in the opposite order; the key-path sessions differ in keyword order too',
    'thorough': 'as quick with <=3 positional-or-keyword and <=2 keyword-only parameters, 0..4 positionals and 8 hash seeds',
}
ASSUMPTIONS = ['bounded scope, not a proof', 'argument values have process-independent repr/pickle (tokens, ints, strings, bytes, tuples, frozensets of ints)',
               'builtin-hash keymaps (hashmap(algorithm=None)) are not session-stable by design and are excluded, as the statement does']


def _py():
    return sys.executable


def _env(seed):
    e = dict(os.environ)
    e['PYTHONHASHSEED'] = str(seed)
    e['KV_SESSION_VARIANT'] = str(seed % 2)      # sessions also differ in what they did before (see bounded/keydigest.py)
    if seed % 2:
        # ... and in the rest of the process state a key must not depend on: C locale without UTF-8 mode (file-system encoding
        # ascii), another working directory is used by the session units, python -O (see _py_args)
        e['LC_ALL'] = 'C'
        e['LANG'] = 'C'
        e['PYTHONUTF8'] = '0'
        e['PYTHONCOERCECLOCALE'] = '0'
        e['PYTHONIOENCODING'] = 'utf-8'
    e['PYTHONDONTWRITEBYTECODE'] = '1'
    pp = [VERIF]
    if os.environ.get('KLEPTO_REPO'):
        pp.insert(0, os.environ['KLEPTO_REPO'])
    e['PYTHONPATH'] = os.pathsep.join(pp + ([e['PYTHONPATH']] if e.get('PYTHONPATH') else []))
    return e


def units(tier, seed):
    from bounded import shapes as S
    from bounded import keychecks as KC
    mode = 'thorough' if tier == 'thorough' else 'quick'
    (npos, nkwo), _, _ = KC._scope(mode)
    n = len(S.shapes(npos, nkwo))
    step = 6 if mode == 'quick' else 8
    seeds = list(range(1 + seed % 7, 1 + seed % 7 + (8 if mode == 'thorough' else 3)))
    us = [('keys', mode, lo, min(lo + step, n), seeds) for lo in range(0, n, step)]
    kms = ['keymap', 'stringmap', 'stringmap-nonflat', 'picklemap-dill', 'picklemap-nonflat', 'hashmap-md5', 'hashmap-nonflat',
           'stringmap-typed', 'hashmap-md5-typed', 'picklemap-nonflat-typed']
    for kind in ('dir', 'file', 'sql'):
        for km in kms:
            if kind == 'sql' and km == 'keymap':
                continue        # the sqlite table accepts basic (string/bytes/number) keys only: raw tuple keys are not storable
            us.append(('session', kind, km, seeds[0], seeds[1]))
    return us


def _digests(mode, lo, hi, seed, detail=None, main_detail=None):
    cmd = [_py()] + (['-O'] if seed % 2 else []) + ['-m', 'bounded.keydigest', mode, str(lo), str(hi)]
    if detail:
        cmd += ['--detail'] + [str(x) for x in detail]
    if main_detail is not None:
        cmd += ['--main-detail', str(main_detail)]
    p = subprocess.run(cmd, cwd=VERIF, env=_env(seed), capture_output=True, text=True, timeout=3000)
    if p.returncode != 0:
        raise RuntimeError('keydigest failed: ' + p.stderr[-500:])
    return json.loads(p.stdout)


def run_unit(unit):
    out = {'evaluations': 0, 'distinct': 0, 'violations': [], 'samples': [], 'counters': {}}
    if unit[0] == 'keys':
        _, mode, lo, hi, seeds = unit
        base = _digests(mode, lo, hi, seeds[0])
        out['distinct'] = len(base)
        out['evaluations'] = sum(v[1] for v in base.values()) * len(seeds)
        bad = {}
        for s in seeds[1:]:
            other = _digests(mode, lo, hi, s)
            for g, v in base.items():
                if other.get(g) != v and g not in bad:
                    bad[g] = s
        from bounded import keypath as K
        cfgs = K.configs(include_builtin_hash=False)
        seenk = set()
        for g, s in bad.items():
            if g.startswith('main/'):
                _, j, name = g.split('/', 2)
                out['violations'].append({'clause': 'session_stable', 'klass': 'key depends on the session (serializer options, named algorithms, __main__-class arguments): %s' % name,
                                          'message': 'group %s: keys differ between the session with PYTHONHASHSEED=%d and the one with %d' % (g, seeds[0], s),
                                          'witness': {'kind': 'keys-main', 'j': int(j), 'seeds': [seeds[0], s]}})
                continue
            idx, ci, j, si = [int(x) for x in g.split('/')]
            klass = 'key differs between sessions (hash seed, keyword order, history): %s %s%s%s' % (cfgs[j][0], 'flat' if cfgs[j][1] else 'non-flat', ' typed' if cfgs[j][2] else '',
                                                                 '' if si == 0 else ' with ignore')
            if klass in seenk:
                continue
            seenk.add(klass)
            out['violations'].append({'clause': 'session_stable', 'klass': klass,
                                      'message': 'group %s: keys differ between PYTHONHASHSEED=%d and %d' % (g, seeds[0], s),
                                      'witness': {'kind': 'keys', 'mode': mode, 'group': [idx, ci, j, si], 'seeds': [seeds[0], s]}})
        out['samples'].append({'groups': len(base), 'seeds': seeds, 'shapes': [lo, hi]})
    else:
        _, kind, km, s1, s2 = unit
        still, text, info = _session(kind, km, s1, s2)
        out['evaluations'] = 18
        out['distinct'] = 2
        out['counters']['sessions'] = 1
        if still:
            out['violations'].append({'clause': 'later_session_is_served_by_loads', 'klass': '%s archive, %s' % (kind, km), 'message': text,
                                      'witness': {'kind': 'session', 'archive': kind, 'keymap': km, 'seeds': [s1, s2]}})
        out['samples'].append({'session': '%s archive, %s' % (kind, km), 'reader_info': info})
    return out


def _session(kind, km, s1, s2):
    d = tempfile.mkdtemp(prefix='c17_', dir=os.environ.get('VERIF_SCRATCH', '/tmp'))
    try:
        loc = os.path.join(d, 'store.db' if kind == 'sql' else ('store.pkl' if kind == 'file' else 'store'))
        infos = []
        for mode, seed in (('write', s1), ('read', s2)):
            p = subprocess.run([_py()] + (['-O'] if seed % 2 else []) + ['-m', 'bounded.session_e2e', mode, kind, km, loc], cwd=VERIF, env=_env(seed),
                               capture_output=True, text=True, timeout=600)
            if p.returncode != 0:
                return True, '%s session on %s archive with %s crashed: %s' % (mode, kind, km, p.stderr[-400:]), None
            infos.append(json.loads(p.stdout.strip().splitlines()[-1]))
        w, r = infos
        ok = r['miss'] == 0 and r['load'] == w['miss']
        return (not ok), 'writer %r (seed %d); reader %r (seed %d): the reader must have miss=0 and load=%d' % (w, s1, r, s2, w['miss']), r
    finally:
        shutil.rmtree(d, ignore_errors=True)


def replay(w):
    if w['kind'] == 'session':
        still, text, info = _session(w['archive'], w['keymap'], w['seeds'][0], w['seeds'][1])
        return still, text
    if w['kind'] == 'keys-main':
        a = _digests('quick', 0, 1, w['seeds'][0], main_detail=w['j'])
        b = _digests('quick', 0, 1, w['seeds'][1], main_detail=w['j'])
        ra, rb = list(a.values())[0], list(b.values())[0]
        for x, y in zip(ra, rb):
            if x != y:
                return True, '%s: call %s has key %s in the session with PYTHONHASHSEED=%d but %s in the one with %d (the sessions differ in their history: one saw a key build fail)' % (
                    list(a)[0], x[0], x[1][:100] + x[1][-45:], w['seeds'][0], y[1][:100] + y[1][-45:], w['seeds'][1])
        return False, 'keys agree in both sessions'
    idx = w['group'][0]
    a = _digests(w['mode'], idx, idx + 1, w['seeds'][0], detail=w['group'])
    b = _digests(w['mode'], idx, idx + 1, w['seeds'][1], detail=w['group'])
    ra, rb = list(a.values())[0], list(b.values())[0]
    for x, y in zip(ra, rb):
        if x != y:
            return True, 'call %s: key %s under PYTHONHASHSEED=%d but %s under %d' % (x[0], x[1], w['seeds'][0], y[1], w['seeds'][1])
    return False, 'keys agree under both seeds'
