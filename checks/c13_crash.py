"""C13 -- crash atomicity of archive writes (fault enumeration on the real code).

For every (persistent configuration, prior state, operation) of the scope the operation is run in a child process in
which every file-system / database primitive klepto reaches is counted (bounded/crash_child.py); then, for every index
i of that effect sequence -- and for every write additionally with only half of its bytes written -- a fresh copy of
the prior state is made, the child is killed (os._exit) immediately before effect i, and a NEW process opens the
archive and reads it.  Contract on what the new process sees: it reads without error; every key the operation touches
has its previous value (or is absent if it was) or the new one; every other key is unchanged; no key appears that was
never stored.
"""
import json
import os
import shutil
import subprocess
import sys
import traceback

from bounded import archives as AR

VERIF = os.path.dirname(os.path.dirname(os.path.abspath(__file__)))
LEVEL = 'fault_enumeration'
CONTRACTS = ['klepto._archives.file_archive.__save__ / __init__ and the mutators built on it', 'klepto._archives.dir_archive._store / _rmdir / clear',
             'klepto._archives.sqltable_archive (sqlite3 fallback) __setitem__ / pop / update / clear', 'klepto._archives.cache.dump',
             'klepto.archives.<kind>(name, cached=False) (re-open)']
RULE = ('one evaluation = one crash point: a writer process killed immediately before one counted primitive (or after half of a write), followed '
        'by a fresh reader process; distinct_nontrivial = distinct (configuration, prior state, operation, effect index, half-write) tuples')
SCOPE = {
    'quick': 'configurations file pickle, file json, dir pickle, sqlite file; prior states {} and {a: old, b: keep}; operations set-new, overwrite, '
             'update of two keys, delete, pop, clear, dump from a cache front, merely re-opening; every effect index of each operation (writes: '
             'also half written); plus: a 300 000-character value stored (new key, existing key) under 6 file-size limits between 12 kB and 292 kB, '
             'the writer killed by the kernel (SIGXFSZ) inside the write calls of the library / of sqlite\'s commit',
    'thorough': 'as quick plus dir json, dir compressed and a three-key prior state',
}
ASSUMPTIONS = ['crash granularity: the Python-level primitive (os.*, file write/close, sqlite execute/commit) plus half-written data; what happens '
               'inside one system call is the operating system\'s atomicity', 'sqlite\'s own journalling is trusted (exercised only by the kernel-kill units: 6 places inside the commit of a multi-page value)', 'a killed process loses nothing '
               'that was already handed to the OS (no power-failure model: no fsync reasoning)']


def units(tier, seed):
    cids = ['file-pickle', 'file-json', 'dir-pickle', 'sqlite']
    priors = [{}, {'a': 'old', 'b': 'keep'}, {'T(1, 2)': 'old', 'b': 'keep'}]
    if tier == 'thorough':
        cids += ['dir-json', 'dir-compressed']       # source-text archives: see the listed C03/C04 finding (import-based reader)
        priors.append({'a': 'old', 'b': 'keep', 'c': 3})
    ops = [{'op': 'set', 'key': 'n', 'value': 'new'}, {'op': 'set', 'key': 'a', 'value': 'new'},
           {'op': 'update', 'items': [['a', 'new'], ['n', 'new2']]}, {'op': 'del', 'key': 'a'}, {'op': 'pop', 'key': 'a'},
           {'op': 'clear'}, {'op': 'dump', 'items': [['a', 'new'], ['n', 'new2']]}, {'op': 'open'}]
    tops = [{'op': 'set', 'key': [1, 2], 'value': 'new'}, {'op': 'dump', 'items': [[[1, 2], 'new']]}, {'op': 'pop', 'key': [1, 2]}]
    out = []
    for cid in cids:
        for pi, prior in enumerate(priors):
            tup = any(k.startswith('T(') for k in prior)
            if tup and cid in ('file-json', 'dir-json', 'sqlite'):
                continue            # tuple keys are outside what these backends accept
            for oi, op in enumerate(tops if tup else ops):
                if op['op'] == 'del' and 'a' not in prior:
                    continue
                out.append((cid, pi, _realkeys(prior), oi if not tup else 100 + oi, op))
    # a history with an EARLIER crash: a removal of 'a' was interrupted right after the entry had been moved out of sight,
    # then 'a' was stored again; now every crash point of another removal / overwrite of 'a'
    for cid in cids:
        if cid.startswith('dir'):
            for oi, op in enumerate([{'op': 'del', 'key': 'a'}, {'op': 'pop', 'key': 'a'}, {'op': 'clear'}, {'op': 'set', 'key': 'a', 'value': 'new'}]):
                out.append((cid, 'dirty', {'a': 'old', 'b': 'keep'}, 200 + oi, op))
    # an operation the same handle completed just before (setdefault, popkeys): it must be durable when the next one is interrupted
    for cid in cids:
        pr = {'a': 'old', 'b': 'keep'}
        for oi, op in enumerate([{'op': 'set', 'key': 'n', 'value': 'new', 'before': [{'op': 'setdefault', 'key': 'k', 'value': 5}]},
                                 {'op': 'pop', 'key': 'a', 'before': [{'op': 'setdefault', 'key': 'k', 'value': 5}]},
                                 {'op': 'set', 'key': 'n', 'value': 'new', 'before': [{'op': 'popkeys', 'keys': ['a']}]},
                                 {'op': 'popkeys', 'keys': ['a', 'b']}]):
            out.append((cid, 1, pr, 300 + oi, op))
    # killed by the kernel INSIDE the write calls of one large value (file-size limit, SIGXFSZ): several limits = several places
    for cid in cids:
        for oi, key in enumerate(['n', 'a']):
            out.append((cid, 1, {'a': 'old', 'b': 'keep'}, 400 + oi,
                        {'op': 'set', 'key': key, 'value': 'v', 'repeat': 300000, 'fsize_limits': [12288, 20480, 65536, 131072, 204800, 299008]}))
    return out


def _realkeys(prior):
    """unit descriptors are JSON-friendly: 'T(1, 2)' stands for the tuple key (1, 2)"""
    return prior


def _env():
    e = dict(os.environ)
    e['PYTHONDONTWRITEBYTECODE'] = '1'
    e['PYTHONPATH'] = os.pathsep.join(([os.environ['KLEPTO_REPO']] if os.environ.get('KLEPTO_REPO') else []) + [VERIF])
    return e


def child(cid, root, op, kill, half=False):
    cmd = [sys.executable, '-m', 'bounded.crash_child', cid, root, json.dumps(op), str(kill)] + (['half'] if half else [])
    p = subprocess.run(cmd, cwd=VERIF, env=_env(), capture_output=True, text=True, timeout=300)
    return p


def reader(cid, root):
    env = _env()
    env['PYTHONHASHSEED'] = '4711'        # the process that recovers the archive has another hash seed than the one that was killed
    p = subprocess.run([sys.executable, '-m', 'bounded.archive_read', cid, root, 'store'], cwd=VERIF, env=env, capture_output=True,
                       text=True, timeout=300)
    return (p.stdout.strip().splitlines() or ['ERR no output: ' + p.stderr[-200:]])[-1]


def after_prefix(prior, op):
    """the contents once the operations the handle completed BEFORE the interrupted one are applied (they are durable by then)"""
    cur = {_k(k): v for k, v in prior.items()}
    for b in op.get('before', []):
        if b['op'] == 'setdefault':
            cur.setdefault(_k(b['key']), b['value'])
        else:
            cur, _ = expected_new(cur, b)
    return cur


def expected_new(prior, op):
    prior = {_k(k): v for k, v in prior.items()}
    new = dict(prior)
    touched = set()
    k = op['op']
    if k == 'popkeys':
        for kk in op['keys']:
            new.pop(_k(kk), None)
            touched.add(_k(kk))
        return new, touched
    if k == 'set':
        new[_k(op['key'])] = op['value'] * op.get('repeat', 1)
        touched.add(_k(op['key']))
    elif k in ('update', 'dump'):
        for kk, v in op['items']:
            new[_k(kk)] = v
            touched.add(_k(kk))
    elif k in ('del', 'pop'):
        new.pop(_k(op['key']), None)
        touched.add(_k(op['key']))
    elif k == 'clear':
        new = {}
        touched = set(prior)
    return new, touched


def judge(line, prior, new, touched):
    """-> None if the recovered contents are acceptable, else a description"""
    if not line.startswith('OK '):
        return 'a new process cannot read the archive: %s' % line[:200]
    try:
        items = eval(line.split(' ', 2)[2], {})
    except Exception:
        return 'unparsable reader output: %s' % line[:200]
    got = {}
    for (rk, tn, rv) in items:
        got[rk] = rv
    P = {repr(k): repr(v) for k, v in prior.items()}
    N = {repr(k): repr(v) for k, v in new.items()}
    T = set(repr(k) for k in touched)
    bad = []
    for k in sorted(set(got) | set(P) | set(N)):
        allowed = set()
        if k in T:
            allowed = {P.get(k, '<absent>'), N.get(k, '<absent>')}
        else:
            allowed = {P.get(k, '<absent>')}
        if got.get(k, '<absent>') not in allowed:
            bad.append((k, got.get(k, '<absent>'), sorted(allowed), 'touched' if k in T else 'not touched'))
    if not bad:
        return None
    # deterministic, and the most telling discrepancy first: a key or value that was never stored outranks a missing entry
    # (the order of a set must not decide which witness class -- listed finding or not -- a recovered state falls into)
    bad.sort(key=lambda b: (b[1] == '<absent>', b[0]))
    return '; '.join('key %s reads as %s; allowed: %s (%s by the operation)' % b for b in bad)


def klass_of(cid, op, effect, why):
    fam = cid.split('-')[0]
    e = effect.split(' ')[0]
    if 'cannot read' in why:
        kind = 'unreadable'
    elif '<absent>' in why.split(';')[0]:
        kind = 'entry lost'
    else:
        kind = 'wrong contents'
    if fam == 'dir' and kind == 'entry lost' and op['op'] in ('set', 'update', 'dump'):
        return 'dir_archive overwrite: the old entry is moved away before the new one is renamed into place (key absent in between)'
    return '%s %s: killed before %s: %s' % (fam if fam != 'sqlite' else 'sqlite', op['op'], e, kind)


def _k(k):
    return eval(k[1:], {}) if isinstance(k, str) and k.startswith('T(') else (tuple(k) if isinstance(k, list) else k)


def _prepare(cid, prior, dirty=False):
    root = AR.new_root()
    a = AR.open_archive(cid, root)
    for k, v in prior.items():
        a[_k(k)] = v
    if dirty:
        # kill a `del a` immediately after its first effect (the rename out of sight), then store 'a' again
        del a
        probe = _copy(root)
        try:
            p = child(cid, probe, {'op': 'del', 'key': 'a'}, -1)
            line = [l for l in p.stdout.splitlines() if l.startswith('EFFECTS ')]
            effects = json.loads(line[0][8:]) if line else []
        finally:
            AR.drop_root(probe)
        idx = None
        for i, e in enumerate(effects):
            if e.startswith('rename') and i + 1 < len(effects):
                idx = i + 1
                break
        if idx is not None:
            child(cid, root, {'op': 'del', 'key': 'a'}, idx)
        a = AR.open_archive(cid, root)
        a['a'] = prior['a']
    del a
    return root


def _copy(root):
    dst = AR.new_root()
    shutil.rmtree(dst)
    shutil.copytree(root, dst, symlinks=True)
    return dst


def run_kernel_kill(unit):
    cid, pi, prior, oi, op = unit
    out = {'evaluations': 0, 'distinct': 0, 'violations': [], 'samples': [], 'counters': {'crash_points': 0, 'kernel_kills': 0}}
    base = None
    try:
        base = _prepare(cid, prior)
        new, touched = expected_new(prior, op)
        for limit in op['fsize_limits']:
            r = _copy(base)
            try:
                p = child(cid, r, dict({k: v for k, v in op.items() if k != 'fsize_limits'}, fsize=limit), -1)
                out['evaluations'] += 1
                out['distinct'] += 1
                killed = p.returncode == -25        # SIGXFSZ
                out['counters']['kernel_kills'] += int(killed)
                out['counters']['crash_points'] += int(killed)
                # killed, failed with an error, or completed: a new process reads the old or the new contents all the same
                line = reader(cid, r)
                why = judge(line, {_k(k): v for k, v in prior.items()}, new, touched)
                if why:
                    short = dict(op, value='v*%d' % op['repeat'])
                    out['violations'].append({'clause': 'recoverable_state_is_old_or_new',
                                              'klass': '%s set of a large value, writer killed by the kernel inside its write calls' % cid,
                                              'message': '%s: %r on %r, file-size limit %d (writer exit status %s): %s' % (cid, short, prior, limit, p.returncode, why[:400]),
                                              'witness': {'unit': list(unit), 'kill': -1, 'half': False, 'fsize': limit}})
                    break
            finally:
                AR.drop_root(r)
        out['samples'].append({'configuration': cid, 'prior': prior, 'operation': dict(op, value='v*%d' % op['repeat']), 'kernel_kills': out['counters']['kernel_kills']})
    except Exception:
        out['violations'].append({'clause': 'harness', 'klass': 'harness crashed on %s %s' % (cid, op['op']), 'message': traceback.format_exc()[-700:],
                                  'witness': {'unit': list(unit)}})
    finally:
        if base:
            AR.drop_root(base)
    return out


def run_unit(unit):
    cid, pi, prior, oi, op = unit
    if 'fsize_limits' in op:
        return run_kernel_kill(unit)
    out = {'evaluations': 0, 'distinct': 0, 'violations': [], 'samples': [], 'counters': {'crash_points': 0}}
    seen = set()
    base = None
    try:
        base = _prepare(cid, prior, dirty=(pi == 'dirty'))
        prior_eff = after_prefix(prior, op)
        new, touched = expected_new(prior_eff, op)
        # 1. the effect sequence of the uninterrupted operation
        r0 = _copy(base)
        try:
            p = child(cid, r0, op, -1)
            line = [l for l in p.stdout.splitlines() if l.startswith('EFFECTS ')]
            if p.returncode != 0 or not line:
                if op['op'] in ('del',) :
                    return out
                raise RuntimeError('uninterrupted run failed: rc=%s %s' % (p.returncode, p.stderr[-300:]))
            effects = json.loads(line[0][8:])
            pre = [l for l in p.stdout.splitlines() if l.startswith('PREFIX ')]
            nprefix = int(pre[0][7:]) if pre else 0
            why = judge(reader(cid, r0), new, new, set())
            if why:
                out['violations'].append({'clause': 'uninterrupted_operation_takes_effect', 'klass': '%s %s: completed operation not visible to a new process' % (cid, op['op']),
                                          'message': '%s %r on %r: %s' % (cid, op, prior, why), 'witness': {'unit': list(unit), 'kill': -1, 'half': False}})
        finally:
            AR.drop_root(r0)
        points = [(i, False) for i in range(nprefix, len(effects))] + [(i, True) for i, e in enumerate(effects) if e.startswith('write ') and i >= nprefix]
        for (i, half) in points:
            r = _copy(base)
            try:
                p = child(cid, r, op, i, half)
                out['evaluations'] += 1
                out['distinct'] += 1
                out['counters']['crash_points'] += 1
                if p.returncode != 17:
                    continue        # the effect sequence was shorter this time (e.g. random temp names): nothing was interrupted
                why = judge(reader(cid, r), prior_eff, new, touched)
                if why:
                    kl = klass_of(cid, op, effects[i], why)
                    if kl in seen:
                        continue
                    seen.add(kl)
                    out['violations'].append({'clause': 'recoverable_state_is_old_or_new', 'klass': kl,
                                              'message': '%s: %r on %r, writer killed before effect #%d %r%s (sequence %r): %s'
                                                         % (cid, op, prior, i, effects[i], ' after half of the data' if half else '', effects, why),
                                              'witness': {'unit': list(unit), 'kill': i, 'half': half}})
            finally:
                AR.drop_root(r)
        out['samples'].append({'configuration': cid, 'prior': prior, 'operation': op, 'effects': effects})
    except Exception:
        out['violations'].append({'clause': 'harness', 'klass': 'harness crashed on %s %s' % (cid, op['op']), 'message': traceback.format_exc()[-700:],
                                  'witness': {'unit': list(unit)}})
    finally:
        if base:
            AR.drop_root(base)
    return out


def replay(w):
    if 'kill' not in w:
        return False, 'no replayable crash point recorded: %r' % (w,)
    cid, pi, prior, oi, op = w['unit']
    base = _prepare(cid, prior, dirty=(pi == 'dirty'))
    if 'fsize' in w:
        try:
            new, touched = expected_new(prior, op)
            p = child(cid, base, dict({k: v for k, v in op.items() if k != 'fsize_limits'}, fsize=w['fsize']), -1)
            line = reader(cid, base)
            why = judge(line, {_k(k): v for k, v in prior.items()}, new, touched)
            txt = '%s: set of a %d-character value on %r with a file-size limit of %d bytes (writer exit status %s); a new process reads: %s' % (
                cid, op['repeat'], prior, w['fsize'], p.returncode, line[:200])
            return bool(why), txt + (' -- ' + why[:300] if why else ' -- acceptable')
        finally:
            AR.drop_root(base)
    try:
        prior_eff = after_prefix(prior, op)
        new, touched = expected_new(prior_eff, op)
        p = child(cid, base, op, w['kill'], w['half'])
        line = reader(cid, base)
        why = judge(line, prior_eff if w['kill'] >= 0 else new, new, touched if w['kill'] >= 0 else set())
        txt = '%s: %r on %r, writer killed before effect #%d%s; a new process reads: %s' % (cid, op, prior, w['kill'], ' (half write)' if w['half'] else '', line[:300])
        return bool(why), txt + (' -- ' + why if why else ' -- acceptable')
    finally:
        AR.drop_root(base)


def level_a(tier):
    """file_archive (serialized): after EVERY file-system effect of the real __save__ and of every mutating mapping method built on it the
    archive reads as the old or the new contents -- proved by pyvc over the assumed file-system contract (contracts/fs_contracts.py)"""
    from checks import wrapperprops
    return wrapperprops.fs_level_a(('C13',))
