"""Checks for the properties decided (Level A) on the twelve decorator classes:
C01 C02 C05 C06 C07 C15 C16 C18 (and the wrapper-level clauses of C08 / C12).

One worker process per (module, class): symbolic execution of the real source, grouped discharge,
refinement + small-scope counter-model + replay on the real code for every undischarged clause.
"""
import collections
import json
import multiprocessing
import os
import sys
import time
import traceback

VERIF = os.path.dirname(os.path.dirname(os.path.abspath(__file__)))
sys.path.insert(0, VERIF)

POLICY = {'C05', 'C06', 'C07', 'C16', 'C02'}

# which operations carry obligations of which property
OPS = {
    'C01': ['call', 'clear', 'archive', 'management'],
    'C02': ['call', 'clear', 'archive', 'management'],
    'C05': ['call', 'clear', 'archive', 'management', 'new'],
    'C06': ['call', 'clear', 'archive', 'management'],
    'C07': ['call', 'clear', 'archive', 'management'],
    'C15': ['call', 'info', 'clear', 'management'],
    'C16': ['call', 'clear', 'archive', 'management'],
    'C18': ['call', 'key', 'lookup', 'management'],
    'C08': ['call', 'clear', 'archive', 'management', 'new'],
    'C12': ['call', 'key', 'rounding', 'new'],
    'C20': ['reduce'],
    'C11': ['new'],
    'C09': ['new'],
}


CACHE_USERS = {'C01', 'C02', 'C05', 'C06', 'C07', 'C08', 'C15', 'C16'}


def owners(o):
    """properties that own an obligation (INV conjuncts and loop invariants are shared)"""
    if o.func.startswith('_abc:') or o.func.startswith('_archives:file_archive') or o.func.startswith('_archives:null_archive') \
            or o.func.startswith('_archives:dict_archive'):
        return {o.prop}
    if o.func.startswith('_archives:cache'):
        # the wrapper proofs call cache.load/dump/archived through the contract that the real methods
        # are proved to refine: that obligation belongs to every property proved over the contract
        return CACHE_USERS if o.name.endswith('/refines_contract') else {'C08'}
    if o.name.endswith('raises.state_unchanged[stats]'):
        # C15: the counters move only for calls that complete
        return {'C16', 'C15'}
    if o.prop == 'C07':
        # C02's at-most-once claim (across evictions and purges) is a lemma over C07's clauses
        return {'C07', 'C02'}
    if o.prop != 'INV':
        return {o.prop}
    n = o.name
    if 'Inv_val' in n:
        return {'C01', 'C07', 'C02'}
    if 'stats>=0' in n:
        return {'C15'}
    if o.kind in ('loop-entry', 'loop-step'):
        if '/archive.' in n:
            return {'C07', 'C01', 'C02'}
        if '/binding' in n or '/range' in n or '/locals' in n:
            return POLICY | {'C01'}
        return set(POLICY)
    return set(POLICY)


def _work_cache(prop, tier):
    """klepto._archives.cache: the real methods against contracts/kcache.py and the sentences of C08"""
    t0 = time.time()
    out = {'case': '_archives:cache', 'recs': [], 'unsupported': None, 'error': None, 'paths': {}, 'sha': None,
           'queries': 0, 'module_unsupported': []}
    try:
        from contracts import cache_class as CC
        from contracts import cache_replay as CR
        from pyvc import driver
        from pyvc.symex import Unsupported
        case = CC.CacheCase()
        out['sha'] = case.sha
        obs = None
        if case.unsupported:
            out['unsupported'] = case.unsupported
        else:
            try:
                obs = CC.obligations(case)
            except Unsupported as e:
                out['unsupported'] = str(e)
        witness = None
        if obs is None or tier == 'thorough':
            n, states, v = CR.search()
            out['bounded'] = {'states': states, 'transitions': n, 'evaluations': n, 'exhausted': v is None, 'samples': [],
                              'violations': [], 'wall_s': round(time.time() - t0, 2),
                              'scope': 'real klepto._archives.cache; all states over 2 keys x 3 values (None included), '
                                       'dict archive or null archive in each slot; 20 operations each'}
            witness = v
            if v is not None:
                out['bounded']['violations'].append({'property': 'C08', 'clause': v['violated'], 'history': [{'op': v['op']}],
                                                    'state': {'cls': 'cache'}, 'config': {}, 'cache_witness': v})
        if obs is None:
            return out
        mine = [o for o in obs if prop in owners(o)]
        recs, nq = driver.discharge_grouped(mine)
        out['queries'] = nq
        for r in recs:
            ob = r.pop('_ob')
            if r['res'] not in ('unsat', 'unrefined'):
                if witness is None:
                    n, states, witness = CR.search()
                if witness is not None:
                    r['replay'] = {'confirmed': True, 'kind': 'cache', 'cache_witness': witness,
                                   'why': 'failing input of the real klepto._archives.cache found by exhaustive small-scope search'}
                else:
                    r['replay'] = {'confirmed': None, 'why': 'no failing input over 2 keys x 3 values'}
            out['recs'].append(r)
        out['wall_s'] = round(time.time() - t0, 2)
    except Exception:
        out['error'] = traceback.format_exc()
    return out


def _work_arch(prop, tier):
    """contracts/archive_classes.py: file_archive protocol glue, null_archive, dict_archive, _abc.archive"""
    t0 = time.time()
    out = {'case': 'archive-classes', 'recs': [], 'unsupported': None, 'error': None, 'paths': {}, 'sha': None,
           'queries': 0, 'module_unsupported': []}
    try:
        from contracts import archive_classes as AC
        from pyvc import driver
        from pyvc.symex import Unsupported
        case = AC.ArchCase()
        if case.unsupported:
            out['unsupported'] = case.unsupported
            return out
        out['sha'] = case.sha
        try:
            obs = [o for o in AC.obligations(case) if o.prop == prop]
        except Unsupported as e:
            out['unsupported'] = str(e)
            return out
        uns = [o for o in obs if o.info.get('unsupported')]
        obs = [o for o in obs if not o.info.get('unsupported')]
        out['partial_unsupported'] = ['%s: %s' % (o.func, o.info['unsupported']) for o in uns]
        recs, nq = driver.discharge_grouped(obs)
        out['queries'] = nq
        for r in recs:
            r.pop('_ob')
            out['recs'].append(r)
        out['wall_s'] = round(time.time() - t0, 2)
    except Exception:
        out['error'] = traceback.format_exc()
    return out


def _work(args):
    if args[0] == 'cache-class':
        return _work_cache(args[4], args[5])
    if args[0] == 'arch-classes':
        return _work_arch(args[4], args[5])
    modfile, modname, safe, clsname, prop, tier = args
    t0 = time.time()
    out = {'case': '%s:%s' % (modfile[:-3], clsname), 'recs': [], 'unsupported': None, 'error': None,
           'paths': {}, 'sha': None, 'queries': 0, 'module_unsupported': []}
    try:
        import z3
        from contracts import wrappers as W
        from contracts import wrapper_replay as WR
        from pyvc import driver
        from pyvc.symex import Unsupported
        # several decorated functions in one process (the proofs and the explorer look at one at a time): three short scenarios on
        # the real code, every tier
        try:
            from contracts import wrapper_explore as WE0
            out['sibling'] = WE0.sibling_search(modname, clsname, _props_for_explorer(prop))
        except Exception:
            out['sibling'] = []
        case = W.Case(modfile, modname, safe, clsname)
        out['sha'] = case.sha
        if case.unsupported:
            out['unsupported'] = case.unsupported
            out['bounded'] = _bounded_fallback(modname, clsname, prop, tier)
            return out
        out['module_unsupported'] = case.module_unsupported
        obs = []
        ops = OPS[prop]
        try:
            if 'call' in ops:
                obs += case.obligations_call()
                out['paths']['wrapper'] = case.paths_call
                if (tier == 'thorough' and prop in ('C01', 'C05', 'C16')) or (prop == 'C05' and os.environ.get('PYVC_REENTRANT_QUICK', '1') == '1'):
                    # re-entrancy tier: the user function may call the decorated function again (memoised recursion)
                    obs += W.obligations_call_reentrant(case)
            if 'key' in ops:
                obs += W.obligations_key_lookup(case, 'key')
            if 'lookup' in ops:
                obs += W.obligations_key_lookup(case, 'lookup')
            if 'info' in ops:
                obs += W.obligations_info(case)
            if 'clear' in ops:
                obs += W.obligations_clear(case)
            if 'archive' in ops:
                obs += W.obligations_archive(case)
            if 'management' in ops:
                obs += W.obligations_management(case)
            if 'rounding' in ops:
                obs += W.obligations_rounding(case)
            if 'new' in ops:
                obs += W.obligations_new(case)
            if 'reduce' in ops:
                obs += [o for o in W.obligations_reduce(case) if not o.info.get('unsupported')]
        except Unsupported as e:
            out['unsupported'] = str(e)
            out['bounded'] = _bounded_fallback(modname, clsname, prop, tier)
            return out
        mine = [o for o in obs if prop in owners(o)]
        out['symex_s'] = round(time.time() - t0, 2)
        recs, nq = driver.discharge_grouped(mine)
        out['queries'] = nq
        findings = json.loads(os.environ.get('PYVC_KNOWN', '[]'))
        investigated = collections.Counter()
        searched = collections.Counter()
        for r in recs:
            ob = r.pop('_ob')
            if r['res'] not in ('unsat', 'unrefined') and ob is not None:
                k = _apply_known(case, ob, r, findings, driver) if findings else None
                if k:
                    r['known'] = k
                elif investigated[r['name']] < 2:
                    investigated[r['name']] += 1
                    r['replay'] = _investigate(case, ob, r, WR, driver)
                    if not r['replay'].get('confirmed') and searched[r['name']] < 1:
                        searched[r['name']] += 1
                        v = _search_history(case, r['name'], prop)
                        if v is not None:
                            r['replay'] = {'confirmed': True, 'kind': 'history', 'history': v,
                                           'why': 'failing history of the real code found by bounded exploration'}
            out['recs'].append(r)
        if tier == 'thorough':
            # second opinion from an independent solver build (z3 4.8.12 CLI) on a seeded sample of the discharged
            # obligations: `sat` there for something the API build proved is an inconsistency (reported as broken)
            out['second_opinion'] = _second_opinion(mine, int(os.environ.get('VERIF_SEED', '0') or 0))
            # consistency guard: the clauses the prover discharged, monitored on the real code over the
            # reachable abstract states of a small scope (bounded; see contracts/wrapper_explore.py)
            out['bounded'] = _bounded_fallback(modname, clsname, prop, tier)
        out['wall_s'] = round(time.time() - t0, 2)
    except Exception:
        out['error'] = traceback.format_exc()
    return out


def _second_opinion(obs, seed, n=25):
    import random
    import z3
    from pyvc import smt
    rnd = random.Random(seed)
    pool = [o for o in obs if not z3.is_true(z3.simplify(o.goal))]
    rnd.shuffle(pool)
    res = {'checked': 0, 'agree_unsat': 0, 'unknown': 0, 'disagree': []}
    for o in pool[:n]:
        try:
            text = smt.to_smt2(o)
        except Exception:
            continue
        r = smt.z3_cli_check(text, timeout_s=20)
        res['checked'] += 1
        if r == 'unsat':
            res['agree_unsat'] += 1
        elif r == 'sat':
            res['disagree'].append(o.name)
        else:
            res['unknown'] += 1
    return res


def _props_for_explorer(prop):
    # C02's at-most-once claim rests on C07's clauses; Inv conjuncts are monitored for every property
    return {'C02': {'C02', 'C07', 'INV'}}.get(prop, {prop, 'INV'})


def _bounded_fallback(modname, clsname, prop, tier):
    """Level B: monitor the property's clauses on the real code over all abstract states reachable within
    a small scope.  Used when the source left the subset pyvc translates, and as a guard in thorough runs."""
    from contracts import wrapper_explore as WE
    depth, budget = (7, 240.0) if tier == 'thorough' else (5, 90.0)
    try:
        r = WE.explore(modname, clsname, depth=depth, budget_s=budget, only=_props_for_explorer(prop))
        # the explorer rebuilds the wrapper in every abstract state, which resets whatever the closure hides; whole histories
        # on ONE wrapper see such state
        v = WE.linear_search(modname, clsname, _props_for_explorer(prop), depth=(7 if tier == 'thorough' else 6),
                             budget_s=(60.0 if tier == 'thorough' else 25.0))
        r['linear_histories'] = 'call sequences over 4 keys up to length %d (with load/clear/dump up to 5) on one wrapper' % (7 if tier == 'thorough' else 6)
        if v is not None and WE.replay_history(v):
            r['violations'].append(v)
        elif prop in ('C01', 'C05', 'C07', 'C02'):
            # ... and with a user function that calls its own decorated self (memoised recursion), for the clauses claimed under
            # re-entrancy: result, size bound, nothing lost
            only_r = {'C01': {'result.equals_function'}, 'C05': {'size.bound'}, 'C07': {'evicted_entries_are_archived'},
                      'C02': {'evicted_entries_are_archived'}}[prop]
            v = WE.linear_search(modname, clsname, only_r, depth=4, budget_s=15.0, recursive=True)
            if v is not None and WE.replay_history(v):
                r['violations'].append(v)
    except Exception:
        return {'error': traceback.format_exc()[-800:]}
    r['scope'] = ('real %s.%s; keys from a universe of 3 (+1 unhashable, +1 raising, +1 raising key generation); maxsize in {1,2}; '
                  'purge on/off; archive none/dict (C07, C02: also a dict archive that rejects the value of key 0); all operation sequences (call, clear, load, dump, archived, key, '
                  'lookup, info) up to depth %d from the freshly decorated function, deduplicated by abstract state'
                  % (modname, clsname, depth))
    return r


def _investigate(case, ob, rec, WR, driver):
    """small-scope counter-model of an undischarged clause, replayed on the real code"""
    info = {'confirmed': None, 'why': None}
    try:
        op = ob.info.get('op')
        extra = case.extra.get(op)
        if extra is None:
            info['why'] = 'no replay harness for operation %r' % op
            return info
        model, elems, k = driver.small_scope_model(ob)
        if model is None:
            info['why'] = 'solver produced no counter-model (%s %s)' % (rec['res'], rec['reason'])
            return info
        spec = WR.spec_from_model(case, op.split(':')[0], extra, model, elems, ob.name)
        if spec is None:
            info['why'] = 'counter-model could not be concretised'
            return info
        info['spec'] = spec
        r = WR.run(spec)
        info.update(r)
    except Exception:
        info['why'] = 'replay crashed: ' + traceback.format_exc()[-600:]
    return info


def _search_history(case, name, prop):
    """a failing obligation whose counter-model did not reproduce: look for a concrete failing history of the
    real code in the small scope (the clause itself if it is a clause, the property's clauses if it is an
    invariant conjunct or a loop contract)"""
    from contracts import wrapper_explore as WE
    clause = name.split('/', 1)[1] if '/' in name else name
    only = {clause} if not (clause.startswith('inv.') or clause.startswith('loop') or '@' in clause) else _props_for_explorer(prop)
    if '[re-entrant]' in name:
        # the clause was stated for a user function that re-enters the cache: search with memoised recursion
        try:
            v = WE.linear_search(case.modname, case.clsname, only, depth=4, budget_s=30.0, recursive=True)
            if v is not None and WE.replay_history(v):
                return v
        except Exception:
            pass
        return None
    try:
        r = WE.explore(case.modname, case.clsname, depth=6, budget_s=25.0, only=only)
    except Exception:
        return None
    for v in r['violations']:
        if v.get('property') == 'ENGINE':
            continue
        try:
            if WE.replay_history(v):
                return v
        except Exception:
            continue
    # nothing from the state-rebuilding explorer: the failure may depend on state hidden in the wrapper's closure; run whole
    # histories on one wrapper
    try:
        v = WE.linear_search(case.modname, case.clsname, only, depth=7, budget_s=45.0)
        if v is not None and WE.replay_history(v):
            return v
    except Exception:
        pass
    return None


def run(prop, tier='quick', seed=0):
    from contracts import wrappers as W
    jobs = []
    for (modfile, modname, safe) in W.MODULES:
        for cls in W.POLICIES:
            jobs.append((modfile, modname, safe, cls, prop, tier))
    if prop in CACHE_USERS:
        jobs.append(('cache-class', None, None, 'cache', prop, tier))
    if prop == 'C08':
        jobs.append(('arch-classes', None, None, 'archives', prop, tier))
    # the LRU cases are the long ones: start them first
    jobs.sort(key=lambda j: 0 if j[3] == 'lru_cache' else 1)
    ctx = multiprocessing.get_context('fork')
    with ctx.Pool(min(14, len(jobs))) as pool:
        results = pool.map(_work, jobs, chunksize=1)
    return results


def _apply_known(case, ob, rec, findings, driver):
    """re-pose a failing obligation with the witness classes of the listed findings excluded"""
    from contracts import wrappers as W
    import z3
    mine = [f for f in findings if f.get('obligation') == ob.name.split(':', 1)[-1] or f.get('obligation') == ob.name]
    mine = [f for f in mine if f.get('exclude') in W.EXCLUSIONS]
    if not mine:
        return None
    extra = case.extra.get(ob.info.get('op'))
    if extra is None:
        return None
    pcs = list(ob.pc)
    for f in mine:
        pcs.append(W.EXCLUSIONS[f['exclude']](case, extra))
    r, ms, _, reason = driver.solve(pcs, ob.goal)
    if r == 'unsat':
        return [f['id'] for f in mine]
    return None


def check(prop, tier, seed, level_a_note=''):
    from . import common
    from contracts import wrapper_replay as WR
    rep = common.Report(prop, tier, seed)
    known = common.load_known()
    findings = [f for f in known.get('findings', []) if f.get('property') == prop]
    os.environ['PYVC_KNOWN'] = json.dumps(findings)
    results = run(prop, tier, seed)
    baseline = common.load_baseline(prop)
    names = collections.OrderedDict()
    instances = 0
    ms_total = 0.0
    slow = []
    funcs = collections.OrderedDict()
    samples = []
    unsupported = []
    bounded_runs = []
    known_used = collections.OrderedDict()
    queries = 0
    shas = {}
    for res in results:
        if res['error']:
            rep.broken.append('%s: %s' % (res['case'], res['error'][-800:]))
            continue
        shas[res['case']] = res['sha']
        b = res.get('bounded')
        if b is not None:
            bounded_runs.append((res['case'], b, bool(res['unsupported'])))
        if res['unsupported']:
            unsupported.append('%s: %s' % (res['case'], res['unsupported']))
            continue
        queries += res['queries']
        for r in res['recs']:
            instances += 1
            ms_total += r['ms']
            st = names.setdefault(r['name'], {'n': 0, 'bad': []})
            st['n'] += 1
            funcs.setdefault(r['func'], 0)
            funcs[r['func']] += 1
            if r['ms'] > 5000:
                slow.append((r['name'], r['path'], r['ms']))
            if r['res'] == 'unrefined':
                st.setdefault('unrefined', 0)
                st['unrefined'] += 1
                continue
            if r['res'] != 'unsat':
                if r.get('known'):
                    for k in r['known']:
                        known_used.setdefault(k, []).append(r['name'])
                else:
                    st['bad'].append(r)
            elif len(samples) < 6 and r['reason'] not in ('trivial',):
                samples.append({'obligation': r['name'], 'path': r['path'], 'verdict': 'unsat', 'backend': 'z3 5.1', 'ms': r['ms']})
    discharged = [n for n, st in names.items() if not st['bad'] and not st.get('unrefined')]
    # a name whose only failures are unrefined groups: some clause of those groups failed; it is
    # reported only if no refined failure exists at all (then the check is undecided)
    if not any(st['bad'] for st in names.values()):
        for n, st in names.items():
            if st.get('unrefined'):
                rep.undecided.append('%s: failing group not refined' % n)
    # known findings: replay the stored witness; print the line only if it still fails
    for f in findings:
        if f['id'] in known_used:
            still = None
            try:
                still = WR.run(f['witness']['spec']).get('confirmed')
            except Exception as e:
                still = None
            if still is not False:
                rep.known('%s [%s]' % (f['what'], f['id']))
    # violations
    for n, st in names.items():
        if not st['bad']:
            continue
        confirmed = [r for r in st['bad'] if r.get('replay', {}).get('confirmed')]
        r = (confirmed or st['bad'])[0]
        path = common.replay_path(prop, n)
        doc = {'property': prop, 'obligation': n, 'path': r['path'], 'function': r['func'],
               'solver': {'backend': 'z3 5.1', 'result': r['res'], 'reason': r['reason'], 'ms': r['ms']},
               'failing_instances': [{'path': b['path'], 'result': b['res'], 'reason': b['reason']} for b in st['bad'][:20]],
               'replay': r.get('replay'), 'sources_sha256': shas,
               'how_to_replay': './check --replay %s' % path}
        if r.get('replay', {}).get('spec'):
            doc['spec'] = r['replay']['spec']
        if r.get('replay', {}).get('kind') == 'cache':
            doc['replay_kind'] = 'cache'
            doc['cache_witness'] = r['replay']['cache_witness']
        if r.get('replay', {}).get('kind') == 'history':
            doc['replay_kind'] = 'history'
            doc['history'] = r['replay']['history']
        common.write_json(path, doc)
        if confirmed:
            rep.violation(n, path, True)
        elif any(b['res'] == 'sat' for b in st['bad']) or (baseline is not None and n in baseline):
            rep.violation(n, path, False)
        else:
            rep.undecided.append('%s: %s (%s)' % (n, r['res'], r['reason']))
    second = {'checked': 0, 'agree_unsat': 0, 'unknown': 0, 'disagree': []}
    for res in results:
        so = res.get('second_opinion')
        if so:
            for k in ('checked', 'agree_unsat', 'unknown'):
                second[k] += so[k]
            second['disagree'] += so['disagree']
    for n in second['disagree']:
        # only meaningful if the first prover discharged it
        if n in names and not names[n]['bad']:
            rep.broken.append('solver disagreement: z3 4.8.12 (CLI) answers sat for %s, which z3 5.1 discharged' % n)
    # bounded stand-in (fallback for cases outside the supported subset; guard in thorough runs)
    bsum = {'cases': [], 'states': 0, 'transitions': 0, 'evaluations': 0, 'exhaustive': True, 'samples': []}
    for (casename, b, is_fallback) in bounded_runs:
        if b.get('error'):
            if is_fallback:
                rep.undecided.append('outside the supported subset and the bounded stand-in crashed: %s: %s' % (casename, b['error'][-300:]))
            else:
                rep.broken.append('bounded guard crashed: %s: %s' % (casename, b['error'][-300:]))
            continue
        bsum['cases'].append({'case': casename, 'fallback': is_fallback, 'states': b['states'], 'transitions': b['transitions'],
                              'evaluations': b['evaluations'], 'exhausted_scope': b['exhausted'], 'scope': b['scope'],
                              'wall_s': b['wall_s']})
        for k in ('states', 'transitions', 'evaluations'):
            bsum[k] += b[k]
        bsum['exhaustive'] = bsum['exhaustive'] and b['exhausted']
        bsum['samples'] += b['samples'][:1]
        seenv = set()
        for v in b['violations']:
            if v.get('property') == 'ENGINE':
                rep.broken.append('%s: %s' % (casename, v['clause']))
                continue
            n = '%s.%s/%s' % (casename, {'call': 'wrapper'}.get(v['history'][-1]['op'], v['history'][-1]['op']), v['clause'])
            if v.get('cache_witness') is not None:
                path = common.replay_path(prop, n + '@input')
                common.write_json(path, {'property': prop, 'obligation': n, 'replay_kind': 'cache',
                                         'cache_witness': v['cache_witness'], 'how_to_replay': './check --replay %s' % path})
                if is_fallback or prop == 'C08':
                    rep.violation(n, path, True)
                continue
            if n in seenv:
                continue
            seenv.add(n)
            if _known_history(v, findings):
                continue
            if not is_fallback and n in names and not names[n]['bad']:
                # the prover discharged this clause but it fails on a reachable state of the real code
                rep.broken.append('engine/contract inconsistency: %s discharged but violated by the real code on %s'
                                  % (n, [WE_short(o) for o in v['history']]))
                continue
            path = common.replay_path(prop, n + '@history')
            common.write_json(path, {'property': prop, 'obligation': n, 'replay_kind': 'history', 'history': v,
                                     'how_to_replay': './check --replay %s' % path, 'sources_sha256': shas,
                                     'found_by': 'bounded exploration of the real code (contracts/wrapper_explore.py)'})
            if n not in [x[0] for x in rep.violations]:
                rep.violation(n, path, True)
    nsib = 0
    for res in results:
        for v in res.get('sibling') or []:
            nsib += 1
            n = '%s.siblings/%s' % (res['case'], v['clause'])
            path = common.replay_path(prop, n + '@history')
            common.write_json(path, {'property': prop, 'obligation': n, 'replay_kind': 'history', 'history': v, 'message': v['message'],
                                     'how_to_replay': './check --replay %s' % path, 'sources_sha256': shas,
                                     'found_by': 'scenario with several decorated functions on the real code (contracts/wrapper_explore.sibling_probe)'})
            rep.violation(n, path, True)
    if prop == 'C18':
        # bounded probe on the real code (never counted as proved): the symbolic `*args, **kwds` of the proofs cannot tell whether
        # a named parameter of key()/lookup() themselves swallows a user keyword -- every parameter name that occurs in klepto's own
        # signatures is tried as the name of a user parameter, in 8 callable forms, through the twelve decorators
        from bounded import reserved_names as RN
        rr = RN.run_c18(0, len(RN.names()))
        bsum['reserved_names'] = {'names': rr['counters']['reserved_names'], 'evaluations': rr['evaluations'], 'valid_calls': rr['distinct'],
                                  'samples': rr['samples'][:1]}
        bsum['evaluations'] += rr['evaluations']
        for v in rr['violations']:
            n = 'reserved_names/%s[%s]' % (v['clause'], v['klass'])
            path = common.replay_path(prop, n)
            common.write_json(path, {'property': prop, 'obligation': n, 'replay_kind': 'bounded', 'module': 'bounded.reserved_names',
                                     'witness': v['witness'], 'witness_class': v['klass'], 'message': v['message'],
                                     'how_to_replay': './check --replay %s' % path, 'sources_sha256': shas,
                                     'found_by': 'reserved-names probe on the real code (bounded/reserved_names.run_c18)'})
            rep.violation(n, path, True)
    for u in unsupported:
        cn = u.split(': ')[0]
        if not any(c['case'] == cn for c in bsum['cases']):
            rep.undecided.append('outside the supported subset: ' + u)
    if instances == 0 and not unsupported and not rep.broken:
        rep.broken.append('zero obligations generated')
    level = 'proof' if (not unsupported and not rep.undecided) else ('exploration' if bsum['cases'] else 'other')
    ev = {'property_id': prop, 'tier': tier, 'seed': seed, 'level': level,
          'coverage': {
              'obligations': len(names), 'discharged': len(discharged),
              'obligation_instances': instances, 'solver_queries': queries,
              'checker_cmd': './check %s --tier %s' % (prop, tier),
              'trusted_base': common.TRUSTED_BASE_A,
              'functions_under_contract': list(funcs.keys()),
              'backend': 'z3 5.1.0 python API (one query per path x property group, refined per clause on failure)',
              'solver_ms_total': round(ms_total, 1), 'slow_queries': slow[:20],
              'samples': samples + bsum['samples'][:3], 'unsupported': unsupported,
              'bounded': bsum,
              'second_opinion_z3_4_8_12_cli': second,
              'evaluations': bsum['evaluations'], 'distinct_nontrivial': bsum['states'],
              'rule': 'bounded part (labelled bounded, never counted as proved): one evaluation = one contract clause '
                      'monitored on one transition of the real code; distinct_nontrivial = distinct reachable abstract '
                      'states (mem, archives, queue, counters) expanded; zero when no bounded run was needed',
              'exhaustive': bool(bsum['cases']) and bsum['exhaustive'],
              'known_findings_printed': rep.known_lines,
              'sources_sha256': shas,
              'explanation': 'VCs generated from the real source of klepto/_cache.py and klepto/safe.py on this run '
                             '(ast -> symbolic execution -> z3); one named obligation = one contract clause of one '
                             'function, discharged on every path' + level_a_note},
          'assumptions': common.TRUSTED_BASE_A}
    if '--record-baseline' in sys.argv:
        common.save_baseline(prop, discharged)
    return rep.finish(ev)


def WE_short(o):
    from contracts import wrapper_explore as WE
    return WE._short(o)


def _known_history(v, findings):
    """a bounded-exploration violation that falls in the witness class of a listed finding"""
    for f in findings:
        if f.get('exclude') == 'no_cache.resident_entry_not_in_archive' and v['clause'] == 'evicted_entries_are_archived' \
                and v['state']['cls'] == 'no_cache':
            st = v['state']
            last = v['history'][-1]
            e = str((last.get('call') or {}).get('key_elem'))
            retrieval = last.get('op') == 'call' and (e in st['mem'] or (st.get('A') is not None and e in st['A']))
            if retrieval and st.get('A') is not None and any(k not in st['A'] for k in st['mem']):
                return True
    return False


def level_a_summary(prop, tier='quick'):
    """Level-A obligations of `prop` over the twelve wrappers, for properties whose main check is bounded (C12):
    -> {'obligations', 'discharged', 'failed': [(name, reason)], 'functions', 'ms', 'unsupported'}"""
    results = run(prop, tier, 0)
    names, funcs, unsupported, ms = {}, set(), [], 0.0
    for res in results:
        if res['error']:
            unsupported.append('%s: crashed: %s' % (res['case'], res['error'][-200:]))
            continue
        if res['unsupported']:
            unsupported.append('%s: %s' % (res['case'], res['unsupported']))
            continue
        for r in res['recs']:
            ok = names.setdefault(r['name'], [True, ''])
            funcs.add(r['func'])
            ms += r['ms']
            if r['res'] != 'unsat':
                ok[0] = False
                ok[1] = '%s on path %s (%s)' % (r['res'], r['path'], r['reason'])
    return {'obligations': len(names), 'discharged': sum(1 for v in names.values() if v[0]),
            'failed': [(n, v[1]) for n, v in names.items() if not v[0]], 'functions': sorted(funcs), 'ms': round(ms, 1),
            'unsupported': unsupported}


def arch_level_a(prop):
    """Level-A obligations of contracts/archive_classes.py owned by `prop` (for the bounded C03 check)"""
    res = _work_arch(prop, 'quick')
    names, funcs, ms = {}, set(), 0.0
    unsupported = []
    if res['error']:
        unsupported.append('archive classes: crashed: %s' % res['error'][-300:])
    elif res['unsupported']:
        unsupported.append('archive classes: %s' % res['unsupported'])
    unsupported += res.get('partial_unsupported', [])
    for r in res['recs']:
        ok = names.setdefault(r['name'], [True, ''])
        funcs.add(r['func'])
        ms += r['ms']
        if r['res'] != 'unsat':
            ok[0] = False
            ok[1] = '%s on path %s (%s)' % (r['res'], r['path'], r['reason'])
    return {'obligations': len(names), 'discharged': sum(1 for v in names.values() if v[0]),
            'failed': [(n, v[1]) for n, v in names.items() if not v[0]], 'functions': sorted(funcs), 'ms': round(ms, 1),
            'unsupported': unsupported}


def rounding_level_a(which='obligations'):
    """contracts/rounding_contracts.py: the real simple_round under contract"""
    from contracts import rounding_contracts as RC
    from pyvc import driver
    obs, sha = getattr(RC, which)()
    uns = ['%s: %s' % (o.func, o.info['unsupported']) for o in obs if o.info.get('unsupported')]
    obs = [o for o in obs if not o.info.get('unsupported')]
    recs, nq = driver.discharge_grouped(obs)
    names, funcs, ms = {}, set(), 0.0
    for r in recs:
        ok = names.setdefault(r['name'], [True, ''])
        funcs.add(r['func'])
        ms += r['ms']
        if r['res'] != 'unsat':
            ok[0] = False
            ok[1] = '%s on path %s (%s)' % (r['res'], r['path'], r['reason'])
    return {'obligations': len(names), 'discharged': sum(1 for v in names.values() if v[0]),
            'failed': [(n, v[1]) for n, v in names.items() if not v[0]], 'functions': sorted(funcs), 'ms': round(ms, 1),
            'unsupported': uns, 'instances': len(recs)}


def fs_level_a(props):
    """contracts/fs_contracts.py: the real file_archive.__save__/__asdict__ and the mutating mapping methods built on them, over the assumed
    file-system contract; `props`: which obligations (by property) to report"""
    from contracts import fs_contracts as FC
    from pyvc import driver
    import z3
    obs, sha = FC.obligations()
    uns = ['%s: %s' % (o.func, o.info['unsupported']) for o in obs if o.info.get('unsupported') and o.prop in props]
    obs = [o for o in obs if not o.info.get('unsupported') and o.prop in props]
    recs, nq = driver.discharge_grouped(obs)
    names, funcs, ms = {}, set(), 0.0
    for r in recs:
        ok = names.setdefault(r['name'], [True, ''])
        funcs.add(r['func'])
        ms += r['ms']
        if r['res'] != 'unsat':
            ok[0] = False
            ok[1] = '%s on path %s (%s)' % (r['res'], r['path'], r['reason'])
    # vacuity guard: the premises of the paths are not contradictory (one query per function: premises => False must NOT be provable)
    seen = set()
    for o in obs:
        if o.func in seen or not o.pc:
            continue
        seen.add(o.func)
        res, _, _, _ = driver.solve(o.pc, z3.BoolVal(False), 4000)
        if res == 'unsat':
            names['%s/premises_are_satisfiable' % o.func] = [False, 'the path condition of %s is contradictory: every obligation on it holds vacuously' % o.path]
    return {'obligations': len(names), 'discharged': sum(1 for v in names.values() if v[0]),
            'failed': [(n, v[1]) for n, v in names.items() if not v[0]], 'functions': sorted(funcs), 'ms': round(ms, 1),
            'unsupported': uns, 'instances': len(recs)}


def merge_level_a(*parts):
    out = {'obligations': 0, 'discharged': 0, 'failed': [], 'functions': [], 'ms': 0.0, 'unsupported': []}
    for p in parts:
        out['obligations'] += p['obligations']
        out['discharged'] += p['discharged']
        out['failed'] += p['failed']
        out['functions'] = sorted(set(out['functions']) | set(p['functions']))
        out['ms'] = round(out['ms'] + p['ms'], 1)
        out['unsupported'] += p['unsupported']
    return out


def keymap_level_a():
    """contracts/keymap_contracts.py: the real keymap.encode / encrypt under contract"""
    from contracts import keymap_contracts as KC
    from pyvc import driver
    obs, sha = KC.obligations()
    uns = ['%s: %s' % (o.func, o.info['unsupported']) for o in obs if o.info.get('unsupported')]
    obs = [o for o in obs if not o.info.get('unsupported')]
    recs, nq = driver.discharge_grouped(obs)
    names, funcs, ms = {}, set(), 0.0
    for r in recs:
        ok = names.setdefault(r['name'], [True, ''])
        funcs.add(r['func'])
        ms += r['ms']
        if r['res'] != 'unsat':
            ok[0] = False
            ok[1] = '%s on path %s (%s)' % (r['res'], r['path'], r['reason'])
    return {'obligations': len(names), 'discharged': sum(1 for v in names.values() if v[0]),
            'failed': [(n, v[1]) for n, v in names.items() if not v[0]], 'functions': sorted(funcs), 'ms': round(ms, 1),
            'unsupported': uns, 'instances': len(recs)}
