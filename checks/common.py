"""Verdicts, evidence files, replay files, known findings (DESIGN.md 3.5, 3.9, 3.10)."""
import json
import os
import sys
import time

VERIF = os.path.dirname(os.path.dirname(os.path.abspath(__file__)))
EVIDENCE = os.path.join(VERIF, 'evidence')
if os.environ.get('KLEPTO_REPO') and os.path.realpath(os.environ['KLEPTO_REPO']) != '/repo':
    # a run against a scratch copy (seeded changes, experiments) must not overwrite the evidence about /repo
    EVIDENCE = os.path.join(VERIF, 'scratch', 'evidence-other-tree')
    os.makedirs(EVIDENCE, exist_ok=True)
REPLAYS = os.path.join(VERIF, 'replays')
KNOWN = os.path.join(VERIF, 'known_findings.json')
BASELINE = os.path.join(VERIF, 'baseline')

TRUSTED_BASE_A = [
    'pyvc: translation of the Python subset to z3 (path enumeration, exception edges, frames); DESIGN.md 3.2',
    'assumed contracts of dict/deque/list/heapq.nsmallest/random.choice/functools.update_wrapper (pyvc/models.py, pyvc/builtins.py); checked against CPython objects by pyvc/axmon.py, not proved',
    'sequence-theory lemmas behind the deque ghosts (occurrence count, first/last occurrence): assumed, exercised by pyvc/axmon.py',
    'z3 5.1 (python API) as the only prover; unsat answers are trusted',
    'induction over call histories (Inv initially + preserved by every operation => Inv always): argued on paper',
    'keys have sane __eq__/__hash__; single-threaded; user function deterministic and non-re-entrant',
    'one cache object per wrapper; f.__cache__() is not mutated behind the wrapper; f.archive(obj) is given contents consistent with the function',
    'Python ints are mathematical integers (true of CPython): no machine arithmetic is abstracted',
]


def load_known():
    if not os.path.exists(KNOWN):
        return {'findings': [], 'fixed': []}
    with open(KNOWN) as f:
        return json.load(f)


def load_baseline(prop):
    p = os.path.join(BASELINE, prop + '.json')
    if not os.path.exists(p):
        return None
    with open(p) as f:
        return set(json.load(f)['discharged'])


def save_baseline(prop, names):
    os.makedirs(BASELINE, exist_ok=True)
    with open(os.path.join(BASELINE, prop + '.json'), 'w') as f:
        json.dump({'property': prop, 'discharged': sorted(names)}, f, indent=1)


def write_json(path, obj):
    os.makedirs(os.path.dirname(path), exist_ok=True)
    tmp = path + '.tmp'
    with open(tmp, 'w') as f:
        json.dump(obj, f, indent=1, default=str)
    os.replace(tmp, path)


def replay_path(prop, name):
    safe = name.replace('/', '__').replace(':', '_').replace('[', '_').replace(']', '_').replace(' ', '_')
    return os.path.join(REPLAYS, prop, safe + '.json')


class Report(object):
    """collects verdict lines and decides the exit code"""

    def __init__(self, prop, tier, seed):
        self.prop, self.tier, self.seed = prop, tier, seed
        self.violations = []      # (name, replay path, suffix)
        self.known_lines = []
        self.undecided = []
        self.broken = []
        self.t0 = time.time()
        # replay files are per run: drop the ones of earlier runs of this property
        import shutil
        shutil.rmtree(os.path.join(REPLAYS, prop), ignore_errors=True)

    def violation(self, name, replay, confirmed):
        self.violations.append((name, replay, '' if confirmed else ' no-failing-input-found'))

    def known(self, text):
        if any(t[:100] == text[:100] for t in self.known_lines):
            return          # one line per listed finding
        self.known_lines.append(text)

    def finish(self, evidence):
        evidence['wall_s'] = round(time.time() - self.t0, 2)
        evidence['violations'] = len(self.violations)
        for line in self.known_lines:
            print('KNOWN-FINDING: property=%s %s' % (self.prop, line))
        code = 0
        if self.broken:
            for b in self.broken:
                print('CHECKER-BROKEN: %s' % b)
            code = 3
        elif self.violations:
            for (name, replay, suffix) in self.violations:
                print('VIOLATION property=%s replay=%s obligation=%s%s' % (self.prop, replay, name, suffix))
            code = 1
        elif self.undecided:
            for u in self.undecided:
                print('UNDECIDED: %s' % u)
            code = 2
        evidence['exit_code'] = code
        try:
            import jsonschema
            with open('/root/.vp/EVIDENCE.schema.json') as f:
                jsonschema.validate(json.loads(json.dumps(evidence, default=str)), json.load(f))
        except ImportError:
            pass
        except FileNotFoundError:
            pass
        except Exception as e:
            print('CHECKER-BROKEN: evidence does not validate against the schema: %s' % str(e)[:300])
            code = 3
        write_json(os.path.join(EVIDENCE, self.prop + '.json'), evidence)
        cov = evidence.get('coverage', {})
        print('%s tier=%s level=%s obligations=%s discharged=%s violations=%d wall=%.1fs exit=%d' % (
            self.prop, self.tier, evidence.get('level'), cov.get('obligations'), cov.get('discharged'),
            len(self.violations), evidence['wall_s'], code))
        return code
