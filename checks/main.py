"""entry point: ./check <ID> [--tier quick|thorough] [--record-baseline] ; ./check --replay <path>"""
import json
import os
import sys

VERIF = os.path.dirname(os.path.dirname(os.path.abspath(__file__)))
sys.path.insert(0, VERIF)
os.chdir(VERIF)

WRAPPER_PROPS = ('C01', 'C02', 'C05', 'C06', 'C07', 'C08', 'C15', 'C16', 'C18')


BOUNDED = {'C19': 'checks.c19_validate', 'C09': 'checks.c09_canon', 'C10': 'checks.c10_discr', 'C11': 'checks.c11_ignore', 'C17': 'checks.c17_stable', 'C12': 'checks.c12_round', 'C03': 'checks.c03_dict', 'C04': 'checks.c04_persist', 'C13': 'checks.c13_crash', 'C20': 'checks.c20_pickle'}


def main(argv):
    if len(argv) >= 2 and argv[0] == '--replay':
        return replay(argv[1])
    if not argv:
        print(__doc__)
        return 3
    prop = argv[0]
    tier = os.environ.get('VERIF_TIER', 'quick')
    if '--tier' in argv:
        tier = argv[argv.index('--tier') + 1]
    seed = int(os.environ.get('VERIF_SEED', '0') or 0)
    if prop in WRAPPER_PROPS:
        from checks import wrapperprops
        return wrapperprops.check(prop, tier, seed)
    if prop in BOUNDED:
        from checks import boundedcheck
        return boundedcheck.check(prop, BOUNDED[prop], tier, seed)
    print('no check registered for %s' % prop)
    return 3


def replay(path):
    doc = json.load(open(path))
    if doc.get('replay_kind') == 'bounded':
        mod = __import__(doc['module'], fromlist=['x'])
        still, text = mod.replay(doc['witness'])
        print(text)
        if still:
            print('REPRODUCED: %s [%s] is violated by the real code on this input' % (doc.get('obligation'), doc.get('witness_class')))
            return 1
        print('not reproduced')
        return 0
    if doc.get('replay_kind') == 'cache':
        from contracts import cache_replay as CR
        w = doc['cache_witness']
        st0 = CR.dec_state(w['pre'])
        args = CR.dec_args(w['args'])
        c = CR.build(st0['mem'], st0['A'], st0['S'])
        pre = CR.snap(c)
        out, exc = None, None
        try:
            if w['op'] == 'getitem':
                out = c[args[0]]
            elif w['op'] == 'setitem':
                c[args[0]] = args[1]
            elif w['op'] == 'delitem':
                del c[args[0]]
            else:
                out = getattr(c, w['op'])(*args)
        except Exception as e:       # noqa
            exc = e
        bad = CR.judge(w['op'], args, pre, CR.snap(c), out, exc)
        print('cache in state %r, operation %s%r -> %r' % (st0, w['op'], args, CR._j(CR.snap(c))))
        if bad:
            print('REPRODUCED: %s is violated by the real klepto._archives.cache on this input (%s)' % (bad, doc.get('obligation')))
            return 1
        print('not reproduced')
        return 0
    if doc.get('replay_kind') == 'history':
        from contracts import wrapper_explore as WE
        v = doc['history']
        print('history on the real code: %s  config=%s' % ([WE._short(o) for o in v['history']], v.get('config')))
        print('state before the last operation: %s' % json.dumps(v['state']))
        still = WE.replay_history(v)
        if still:
            print('REPRODUCED: clause %s (%s) is violated by the real code on this history' % (v['clause'], doc.get('obligation')))
            return 1
        print('not reproduced')
        return 0
    spec = doc.get('spec') or (doc.get('replay') or {}).get('spec')
    if spec is None:
        print('replay file names obligation %s; the verifier gave no replayable input:' % doc.get('obligation'))
        print(json.dumps(doc.get('solver'), indent=1))
        return 0
    kind = doc.get('replay_kind', 'wrapper')
    if kind == 'wrapper':
        from contracts import wrapper_replay as WR
        r = WR.run(spec)
    else:
        print('unknown replay kind %s' % kind)
        return 3
    print(json.dumps(r, indent=1, default=str))
    if r.get('confirmed'):
        print('REPRODUCED: obligation %s is violated by the real code on this input' % doc.get('obligation'))
        return 1
    print('not reproduced')
    return 0


if __name__ == '__main__':
    try:
        sys.exit(main(sys.argv[1:]))
    except SystemExit:
        raise
    except Exception:
        import traceback
        traceback.print_exc()
        print('CHECKER-BROKEN: traceback')
        sys.exit(3)
