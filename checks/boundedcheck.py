"""Runner for the bounded stand-ins (Level B, DESIGN.md 3.8): exhaustive enumeration of a stated scope, split over
processes, with deal contracts on sidecar wrappers of the real functions as monitors.  Never counted as proved:
evidence level is `exploration`.

A property module provides
    units(tier, seed)      -> list of picklable work units
    run_unit(unit)         -> {'evaluations': n, 'distinct': m, 'violations': [ {clause, klass, witness, message} ], 'samples': [..]}
    replay(witness)        -> (still_violated: bool, text)
    SCOPE[tier], RULE, CONTRACTS (names of the functions under contract), ASSUMPTIONS
Known findings (known_findings.json) are matched by `klass` (a witness class computed by the property module from
the failing input, e.g. "callable has keyword-only parameters and ..."): a listed class prints KNOWN-FINDING and
does not fail the check; any violation outside the listed classes is a VIOLATION.
"""
import collections
import json
import multiprocessing
import os
import sys
import time
import traceback

from . import common


def _run(args):
    modname, unit = args
    try:
        mod = __import__(modname, fromlist=['x'])
        return mod.run_unit(unit)
    except Exception:
        return {'error': traceback.format_exc()[-1500:], 'unit': repr(unit)[:200]}


def check(prop, modname, tier, seed):
    mod = __import__(modname, fromlist=['x'])
    rep = common.Report(prop, tier, seed)
    known = common.load_known()
    findings = [f for f in known.get('findings', []) if f.get('property') == prop and f.get('klass')]
    listed = {f['klass']: f for f in findings}
    units = mod.units(tier, seed)
    procs = int(os.environ.get('PYVC_PROCS', '14'))
    ctx = multiprocessing.get_context('fork')
    if len(units) > 1 and procs > 1:
        with ctx.Pool(min(procs, len(units))) as pool:
            results = pool.map(_run, [(modname, u) for u in units], chunksize=1)
    else:
        results = [_run((modname, u)) for u in units]
    evals = distinct = 0
    samples = []
    byclass = collections.OrderedDict()
    extra = collections.Counter()
    for r in results:
        if r.get('error'):
            rep.broken.append('bounded worker crashed: %s (%s)' % (r['error'][-400:], r.get('unit')))
            continue
        evals += r['evaluations']
        distinct += r['distinct']
        for k, v in r.get('counters', {}).items():
            extra[k] += v
        if len(samples) < 4:
            samples += r.get('samples', [])[:1]
        for v in r['violations']:
            byclass.setdefault((v['clause'], v['klass']), []).append(v)
    nviol = 0
    printed = set()
    for (clause, klass), vs in byclass.items():
        v = vs[0]
        if klass in listed:
            if listed[klass]['id'] not in printed:
                printed.add(listed[klass]['id'])
                still, text = mod.replay(listed[klass]['witness'])
                n = sum(len(x) for (c2, k2), x in byclass.items() if k2 == klass)
                if still or n:
                    rep.known('%s [%s] (%d cases in this run)' % (listed[klass]['what'], listed[klass]['id'], n))
            continue
        still, text = mod.replay(v['witness'])
        name = '%s[%s]' % (clause, klass)
        path = common.replay_path(prop, name)
        common.write_json(path, {'property': prop, 'obligation': clause, 'witness_class': klass, 'replay_kind': 'bounded',
                                 'module': modname, 'witness': v['witness'], 'message': v['message'], 'cases_in_class': len(vs),
                                 'replayed': text, 'how_to_replay': './check --replay %s' % path})
        rep.violation(name, path, bool(still))
        nviol += 1
    # a listed finding whose class produced no violation in this run but whose stored witness still fails
    for klass, f in listed.items():
        if not any(k == klass for (_, k) in byclass) and f['id'] not in printed:
            try:
                still, text = mod.replay(f['witness'])
            except Exception:
                still = False
            if still:
                rep.known('%s [%s]' % (f['what'], f['id']))
    if evals == 0 and not rep.broken:
        rep.broken.append('zero cases enumerated')
    la = None
    if hasattr(mod, 'level_a'):
        la = mod.level_a(tier)
        for (n, why) in la['failed']:
            path = common.replay_path(prop, n)
            common.write_json(path, {'property': prop, 'obligation': n, 'solver': why,
                                     'note': 'Level-A obligation (pyvc) of this property failed; no failing input was searched for'})
            rep.violation(n, path, False)
        for u in la['unsupported']:
            rep.undecided.append('Level-A part outside the supported subset: ' + u)
    ev = {'property_id': prop, 'tier': tier, 'seed': seed, 'level': getattr(mod, 'LEVEL', 'exploration'),
          'coverage': {'evaluations': evals, 'distinct_nontrivial': distinct, 'rule': mod.RULE, 'samples': samples,
                       'exhaustive': True, 'scope': mod.SCOPE[tier], 'functions_under_contract': mod.CONTRACTS,
                       'counters': dict(extra), 'violation_classes': ['%s[%s] x%d' % (c, k, len(v)) for (c, k), v in byclass.items()],
                       'known_findings_printed': rep.known_lines,
                       'explanation': 'bounded stand-in (never counted as proved): deal contracts on sidecar wrappers of the '
                                      'real functions, evaluated on every case of the stated scope; ' + mod.SCOPE[tier],
                       'checker_cmd': './check %s --tier %s' % (prop, tier)},
          'assumptions': mod.ASSUMPTIONS}
    if la is not None:
        ev['coverage'].update({'obligations': la['obligations'], 'discharged': la['discharged'],
                               'level_a_functions_under_contract': la['functions'], 'solver_ms_total': la['ms'],
                               'trusted_base': common.TRUSTED_BASE_A,
                               'level_a_note': 'the obligations counted here are the Level-A (pyvc + z3) part of this property; the '
                                               'bounded part is counted in evaluations/distinct_nontrivial; the property as a whole is '
                                               'reported at the weaker level (exploration)'})
    return rep.finish(ev)
