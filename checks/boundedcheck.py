"""Runner for the bounded stand-ins (Level B, DESIGN.md 3.8): exhaustive enumeration of a stated scope, split over
processes, with deal contracts on sidecar wrappers of the real functions as monitors.  Never counted as proved:
evidence level is `exploration`.

A property module provides
    units(tier, seed)      -> list of picklable work units
    run_unit(unit)         -> {'evaluations': n, 'distinct': m, 'violations': [ {clause, klass, witness, message} ], 'samples': [..]}
    replay(witness)        -> (still_violated: bool, text)
    SCOPE[tier], RULE, CONTRACTS (names of the functions under contract), ASSUMPTIONS
Known findings (known_findings.json) are matched by `klass` (a witness class computed by the property module from
the failing input, e.g. "callable has keyword-only parameters and ..."): a listed class prints KNOWN-FINDING and
does not fail the check; any violation outside the listed classes is a VIOLATION.
"""
import collections
import json
import multiprocessing
import os
import sys
import time
import traceback

from . import common


def _run(args):
    modname, unit = args
    try:
        mod = __import__(modname, fromlist=['x'])
        return mod.run_unit(unit)
    except Exception:
        return {'error': traceback.format_exc()[-1500:], 'unit': repr(unit)[:200]}


def check(prop, modname, tier, seed):
    mod = __import__(modname, fromlist=['x'])
    rep = common.Report(prop, tier, seed)
    known = common.load_known()
    findings = [f for f in known.get('findings', []) if f.get('property') == prop and f.get('klass')]
    listed = {f['klass']: f for f in findings}
    units = mod.units(tier, seed)
    procs = int(os.environ.get('PYVC_PROCS', '14'))
    ctx = multiprocessing.get_context('fork')
    if len(units) > 1 and procs > 1:
        with ctx.Pool(min(procs, len(units))) as pool:
            results = pool.map(_run, [(modname, u) for u in units], chunksize=1)
    else:
        results = [_run((modname, u)) for u in units]
    evals = distinct = 0
    samples = []
    byclass = collections.OrderedDict()
    extra = collections.Counter()
    for r in results:
        if r.get('error'):
            rep.broken.append('bounded worker crashed: %s (%s)' % (r['error'][-400:], r.get('unit')))
            continue
        evals += r['evaluations']
        distinct += r['distinct']
        for k, v in r.get('counters', {}).items():
            extra[k] += v
        if len(samples) < 4:
            samples += r.get('samples', [])[:1]
        for v in r['violations']:
            byclass.setdefault((v['clause'], v['klass']), []).append(v)
    nviol = 0
    printed = set()
    for (clause, klass), vs in byclass.items():
        v = vs[0]
        if klass in listed:
            if listed[klass]['id'] not in printed:
                printed.add(listed[klass]['id'])
                still, text = mod.replay(listed[klass]['witness'])
                n = sum(len(x) for (c2, k2), x in byclass.items() if k2 == klass)
                if still or n:
                    rep.known('%s [%s] (%d cases in this run)' % (listed[klass]['what'], listed[klass]['id'], n))
            continue
        still, text = mod.replay(v['witness'])
        name = '%s[%s]' % (clause, klass)
        path = common.replay_path(prop, name)
        common.write_json(path, {'property': prop, 'obligation': clause, 'witness_class': klass, 'replay_kind': 'bounded',
                                 'module': modname, 'witness': v['witness'], 'message': v['message'], 'cases_in_class': len(vs),
                                 'replayed': text, 'how_to_replay': './check --replay %s' % path})
        rep.violation(name, path, bool(still))
        nviol += 1
    # a listed finding whose class produced no violation in this run but whose stored witness still fails
    for klass, f in listed.items():
        if not any(k == klass for (_, k) in byclass) and f['id'] not in printed:
            try:
                still, text = mod.replay(f['witness'])
            except Exception:
                still = False
            if still:
                rep.known('%s [%s]' % (f['what'], f['id']))
    if evals == 0 and not rep.broken:
        rep.broken.append('zero cases enumerated')
    xh = None
    if tier == 'thorough' and getattr(mod, 'CROSSHAIR', None):
        xh = run_crosshair(mod.CROSSHAIR, float(os.environ.get('VERIF_XH_BUDGET', '40')))
        for (where, msg) in xh['refuted']:
            name = 'crosshair[%s]' % where
            if any(f.get('crosshair') == where for f in findings):
                rep.known('%s (CrossHair counterexample: %s)' % ([f for f in findings if f.get('crosshair') == where][0]['what'][:200], msg[:160]))
                continue
            path = common.replay_path(prop, name)
            common.write_json(path, {'property': prop, 'obligation': name, 'replay_kind': 'crosshair', 'counterexample': msg,
                                     'how_to_replay': 'the message names the function and its arguments; call it'})
            rep.violation(name, path, True)
        for e in xh['errors']:
            rep.undecided.append('CrossHair: ' + e[:300])
    la = None
    if hasattr(mod, 'level_a'):
        la = mod.level_a(tier)
        for (n, why) in la['failed']:
            path = common.replay_path(prop, n)
            wit = None
            if hasattr(mod, 'level_a_search'):
                # a failed obligation is not yet a failing input: search the real code for one in a small scope
                try:
                    wit = mod.level_a_search(n)
                except Exception:
                    wit = None
            if wit is not None:
                still, text = mod.replay(wit)
                common.write_json(path, {'property': prop, 'obligation': n, 'solver': why, 'replay_kind': 'bounded', 'module': modname,
                                         'witness': wit, 'replayed': text, 'how_to_replay': './check --replay %s' % path})
                rep.violation(n, path, bool(still))
                continue
            common.write_json(path, {'property': prop, 'obligation': n, 'solver': why,
                                     'note': 'Level-A obligation (pyvc) of this property failed; no failing input was found'})
            rep.violation(n, path, False)
        for u in la['unsupported']:
            # the bounded part decides this property: a function that left the subset pyvc translates only loses
            # its Level-A obligations (they are not counted); it is neither a violation nor an undecided verdict
            print('NOTE: Level-A part not obtained (source outside the supported subset): %s' % u[:240])
    ev = {'property_id': prop, 'tier': tier, 'seed': seed, 'level': getattr(mod, 'LEVEL', 'exploration'),
          'coverage': {'evaluations': evals, 'distinct_nontrivial': distinct, 'rule': mod.RULE, 'samples': samples,
                       'exhaustive': True, 'scope': mod.SCOPE[tier], 'functions_under_contract': mod.CONTRACTS,
                       'counters': dict(extra), 'violation_classes': ['%s[%s] x%d' % (c, k, len(v)) for (c, k), v in byclass.items()],
                       'known_findings_printed': rep.known_lines,
                       'explanation': 'bounded stand-in (never counted as proved): deal contracts on sidecar wrappers of the '
                                      'real functions, evaluated on every case of the stated scope; ' + mod.SCOPE[tier],
                       'checker_cmd': './check %s --tier %s' % (prop, tier)},
          'assumptions': mod.ASSUMPTIONS}
    if xh is not None:
        ev['coverage']['crosshair'] = {k: xh[k] for k in ('modules', 'conditions', 'confirmed_over_all_paths', 'not_confirmed', 'refuted', 'budget_s_per_condition')}
        ev['coverage']['crosshair']['note'] = ('symbolic search of the deal contracts in bounded/xh/*.py by CrossHair (z3, per-path); a bounded '
                                               'stand-in under a time budget: "confirmed over all paths" is recorded but never counted as proved')
    if la is not None:
        ev['coverage'].update({'obligations': la['obligations'], 'discharged': la['discharged'],
                               'level_a_not_obtained': la['unsupported'],
                               'level_a_functions_under_contract': la['functions'], 'solver_ms_total': la['ms'],
                               'trusted_base': common.TRUSTED_BASE_A,
                               'level_a_note': 'the obligations counted here are the Level-A (pyvc + z3) part of this property; the '
                                               'bounded part is counted in evaluations/distinct_nontrivial; the property as a whole is '
                                               'reported at the weaker level (exploration)'})
    return rep.finish(ev)


def run_crosshair(modules, budget):
    """crosshair check --analysis_kind=deal on sidecar modules -> counts and counterexamples; internal errors are
    errors (undecided), never violations"""
    import re
    import subprocess
    verif = os.path.dirname(os.path.dirname(os.path.abspath(__file__)))
    env = dict(os.environ)
    env['PYTHONPATH'] = os.pathsep.join(([os.environ['KLEPTO_REPO']] if os.environ.get('KLEPTO_REPO') else []) + [verif])
    out = {'modules': list(modules), 'conditions': 0, 'confirmed_over_all_paths': 0, 'not_confirmed': 0, 'refuted': [], 'errors': [],
           'budget_s_per_condition': budget}
    for m in modules:
        try:
            p = subprocess.run([sys.executable, '-m', 'crosshair', 'check', '--analysis_kind=deal', '--report_all',
                                '--per_condition_timeout', str(budget), '--per_path_timeout', '8', m],
                               cwd=verif, env=env, capture_output=True, text=True, timeout=budget * 40 + 120)
        except subprocess.TimeoutExpired:
            out['errors'].append('%s: timed out' % m)
            continue
        lines = (p.stdout + p.stderr).splitlines()
        seen_any = False
        for ln in lines:
            mm = re.match(r'^(.*?):(\d+): (info|error): (.*)$', ln)
            if not mm:
                continue
            seen_any = True
            where = '%s:%s' % (os.path.basename(mm.group(1)), mm.group(2))
            kind, msg = mm.group(3), mm.group(4)
            out['conditions'] += 1
            if kind == 'info' and msg.startswith('Confirmed'):
                out['confirmed_over_all_paths'] += 1
            elif kind == 'info':
                out['not_confirmed'] += 1
            elif msg.startswith('false when calling') or 'when calling' in msg:
                out['refuted'].append((where, msg))
            else:
                out['errors'].append('%s: %s' % (where, msg))
        if not seen_any:
            out['errors'].append('%s: no output (rc=%s) %s' % (m, p.returncode, (p.stderr or p.stdout)[-200:]))
    return out
