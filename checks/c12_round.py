"""C12 -- rounding tolerance merges nearby calls but never alters what the function sees (bounded part).

deal contracts on sidecar wrappers of the real rounding functions and of the decorators' key path, evaluated on an
exhaustive enumeration of nested argument structures against an independent oracle built on Python's round().
(The wrapper-level clauses -- the user function is entered with the caller's *args/**kwds on every path of all 12
wrappers, the key is computed from rounded_args(*args, **kwds) -- are Level A obligations of pyvc, reported under
C12 by checks/wrapperprops.py and merged into this property's evidence.)
"""
import itertools

import deal

CROSSHAIR = ['bounded.xh.round_sidecar']
CONTRACTS = ['klepto.rounding.simple_round / deep_round / shallow_round (+ their factories)',
             'klepto.inf_cache/lru_cache/safe.lfu_cache(tol=, deep=).key and the call path', 'klepto.keygen(tol=, deep=)']
RULE = ('one evaluation = one contract clause on one (rounder, tol, argument structure) case or one (decorator, tol, deep, pair of calls) '
        'case; distinct_nontrivial = distinct argument structures that contain at least one float (rounding can matter)')
SCOPE = {
    'quick': 'argument structures: leaves {1.25, 1.35, 2.5, -0.55, 1e-9, 7, True, "ab", b"ab", None}; containers list, tuple, set, frozenset, '
             'dict with str keys, dict with non-str keys, nested to depth 2, width <=2; as positional and as keyword argument; '
             'tol in {None, -1, 0, 1, 2}; rounders simple/deep/shallow; decorators inf_cache, lru_cache, safe.lfu_cache, keygen with deep on/off',
    'thorough': 'as quick with nesting depth 3',
    'both tiers': 'plus: 10 kinds of argument that are not plain containers (namedtuple, tuple subclass with its own constructor, OrderedDict, deque, range, '
                  'bytearray, memoryview, list iterator, generator) x 4 decorators x deep on/off x 5 tolerances: the call does not fail, the function gets '
                  'its own object (iterators unconsumed), an equal argument hits, floats inside tuple/dict subclasses are rounded; every parameter name that occurs in '
                  'klepto\'s own signatures as the name of a user parameter, 8 callable forms, through 8 decorators with a tolerance, keygen and the 3 standalone rounders',
}
SCOPE = {t: SCOPE[t] + '; ' + SCOPE['both tiers'] for t in ('quick', 'thorough')}
ASSUMPTIONS = ['bounded scope, not a proof', 'oracle = Python round() applied to floats (top level / one level / every level inside list, tuple, '
               'set, frozenset, dict values); dict keys are never rounded', 'no NaN; one-shot iterables, ranges, deques, namedtuples and other tuple/dict subclasses: only as single top-level arguments (the "exotic" unit)']

LEAVES = [1.25, 1.35, 2.5, -0.55, 1e-9, 7, True, 'ab', b'ab', None]
TOLS = [None, -1, 0, 1, 2]


def structures(depth):
    level = list(LEAVES)
    allv = list(level)
    for d in range(depth):
        new = []
        pairs = [(a,) for a in level[:6]] + [(level[0], level[5]), (level[1], level[7]), (level[2], level[3])]
        if d > 0:
            pairs = [(a,) for a in level[:4]] + [(level[0], level[-1])]
        for p in pairs:
            new.append(list(p))
            new.append(tuple(p))
            try:
                new.append(set(p))
                new.append(frozenset(p))
            except TypeError:
                pass
            new.append({'k%d' % i: v for i, v in enumerate(p)})
            new.append({i + 1: v for i, v in enumerate(p)})
        level = new
        allv += new
    return allv


def has_float(x):
    if isinstance(x, float):
        return True
    if isinstance(x, dict):
        return any(has_float(v) for v in x.values())
    if isinstance(x, (list, tuple, set, frozenset)):
        return any(has_float(v) for v in x)
    return False


# ---- oracle ---------------------------------------------------------------------------------------
def o_simple(x, tol):
    return round(x, tol) if isinstance(x, float) else x


def o_deep(x, tol):
    if isinstance(x, float):
        return round(x, tol)
    if isinstance(x, dict):
        return {k: o_deep(v, tol) for k, v in x.items()}
    if isinstance(x, (list, tuple, set, frozenset)):
        return type(x)(o_deep(v, tol) for v in x)
    return x


def o_shallow(x, tol):
    if isinstance(x, float):
        return round(x, tol)
    if isinstance(x, (list, tuple, set, frozenset)):
        return type(x)(round(v, tol) if isinstance(v, float) else v for v in x)
    return x


ORACLE = {'simple': o_simple, 'deep': o_deep, 'shallow': o_shallow}


def same(a, b):
    """equal values of equal types, recursively (1 != 1.0 != True here)"""
    if type(a) is not type(b):
        return False
    if isinstance(a, dict):
        return set(a) == set(b) and all(same(a[k], b[k]) for k in a)
    if isinstance(a, (list, tuple)):
        return len(a) == len(b) and all(same(x, y) for x, y in zip(a, b))
    if isinstance(a, (set, frozenset)):
        return len(a) == len(b) and all(any(same(x, y) for y in b) for x in a)
    return a == b


def loose_eq(a, b):
    """Python equality (what a raw key compares by): -0.0 == 0.0, order-free dicts and sets"""
    return a == b


def snapshot(x):
    import copy
    return copy.deepcopy(x)


# ---- contracts on the rounding functions ---------------------------------------------------------------
def _rounder(kind, tol):
    import klepto.rounding as R
    return {'simple': R.simple_round, 'deep': R.deep_round, 'shallow': R.shallow_round}[kind](tol)


@deal.ensure(lambda kind, tol, value, as_kw, result: result['raised'] is None,
             message='never_fails: rounding never makes a valid call fail')
@deal.ensure(lambda kind, tol, value, as_kw, result: result['raised'] is not None or same(result['seen'], ORACLE[kind](value, tol) if tol is not None else value),
             message='rounds_like_oracle: floats are rounded to tol decimals where the rounder reaches them, everything else is unchanged')
@deal.ensure(lambda kind, tol, value, as_kw, result: same(result['input_after'], result['input_before']),
             message='input_unmodified: the caller\'s argument objects are not mutated')
@deal.ensure(lambda kind, tol, value, as_kw, result: result['raised'] is not None or has_float(value) or tol is None or result['seen'] is value or same(result['seen'], value),
             message='non_float_data_intact: integers, strings and all non-float data are never changed')
def rounder_c(kind, tol, value, as_kw):
    """the standalone decorators hand the rounded arguments to the function (by design)"""
    seen = []

    def f(*a, **k):
        seen.append(k['x'] if as_kw else a[0])
    before = snapshot(value)
    g = _rounder(kind, tol)(f)
    raised = None
    try:
        if as_kw:
            g(x=value)
        else:
            g(value)
    except Exception as e:      # noqa
        raised = e
    return {'raised': raised, 'seen': seen[0] if seen else None, 'input_before': before, 'input_after': value}


# ---- contracts on the decorators' key path ---------------------------------------------------------------
def _decorated(which, tol, deep, log, km):
    import klepto
    import klepto.safe

    def f(x, y=0):
        log.append((x, y))
        return 'r'
    if which == 'keygen':
        return klepto.keygen(tol=tol, deep=deep, keymap=km)(f), f
    dec = {'inf_cache': klepto.inf_cache, 'lru_cache': klepto.lru_cache, 'safe.lfu_cache': klepto.safe.lfu_cache}[which]
    return dec(tol=tol, deep=deep, keymap=km), f


def keyfn(which, tol, deep):
    """-> (key function under the raw keymap: keys compare like the rounded arguments do; a wrapper with string keys to
    call; its log of received arguments)"""
    from klepto.keymaps import keymap as rawmap, picklemap
    log = []
    d, f = _decorated(which, tol, deep, [], rawmap())
    if which == 'keygen':
        kf = lambda v: d(v)
        kf.by_keyword = lambda v: d(x=v)
        return kf, None, log
    wraw = d(f)
    d2, f2 = _decorated(which, tol, deep, log, picklemap())
    kf = lambda v: wraw.key(v)
    kf.by_keyword = lambda v: wraw.key(x=v)
    return kf, d2(f2), log


@deal.ensure(lambda which, tol, deep, v1, v2, result: result['raised'] is None, message='key_never_fails: rounding never makes a valid call fail')
@deal.ensure(lambda which, tol, deep, v1, v2, result: result['raised'] is not None or
             result['same_key'] == loose_eq(*[(o_deep if deep else o_simple)(v, tol) if tol is not None else v for v in (v1, v2)]),
             message='key_from_rounded_arguments: calls share a key exactly when their arguments round to the same values')
@deal.ensure(lambda which, tol, deep, v1, v2, result: result['raised'] is not None or result['stateless'],
             message='key_is_stateless: the same call gets the same key every time it is made, passed positionally or by keyword')
@deal.ensure(lambda which, tol, deep, v1, v2, result: result['raised'] is not None or result['received_original'],
             message='function_sees_original_arguments: the wrapped function receives the caller\'s own objects')
def keypair_c(which, tol, deep, v1, v2):
    kf, w, log = keyfn(which, tol, deep)
    out = {'raised': None, 'same_key': None, 'received_original': True, 'stateless': True}
    try:
        k1, k2 = kf(v1), kf(v2)
        out['same_key'] = (k1 == k2)
        kw1 = kf.by_keyword(v1)
        out['stateless'] = (kf(v1) == k1) and (kf.by_keyword(v1) == kw1) and (kf.by_keyword(v1) == kw1) and (kw1 == k1)
        if w is not None:
            w(v1)
            out['received_original'] = bool(log) and log[-1][0] is v1
    except Exception as e:      # noqa
        out['raised'] = e
    return out


# ---- arguments that are not plain lists/tuples/sets/dicts ---------------------------------------------------
import collections as _co
P12 = _co.namedtuple('P12', 'x y')
# (name, factory(float) -> argument, value-based repr?, one-shot?, counts as a tuple/dict of the statement?)
EXOTIC = [('namedtuple', lambda t: P12(t, 2), True, False, True),
          ('namedtuple nested in a list', lambda t: [P12(t, (t, 'a'))], True, False, True),
          ('range', lambda t: range(3), True, False, False),
          ('OrderedDict', lambda t: _co.OrderedDict([('a', t), ('b', 1)]), True, False, True),
          ('deque', lambda t: _co.deque([t, 1]), True, False, False),
          ('bytearray', lambda t: bytearray(b'ab'), True, False, False),
          ('memoryview', lambda t: memoryview(b'ab'), False, False, False),
          ('list iterator', lambda t: iter([t, 2]), False, True, False),
          ('generator', lambda t: (z for z in [t, 2]), False, True, False),
          ('tuple subclass with its own constructor', lambda t: _Pair(t, 2), True, False, False)]      # cannot be rebuilt: must not fail; rounding inside is not demanded


class _Pair(tuple):
    """a tuple subclass that cannot be rebuilt from one sequence argument"""

    def __new__(cls, a, b):
        return tuple.__new__(cls, (a, b))

    def __repr__(self):
        return '_Pair(%r, %r)' % (self[0], self[1])


@deal.ensure(lambda which, tol, deep, idx, result: result['skipped'] or result['raised'] is None,
             message='never_fails: rounding never makes a valid call fail')
@deal.ensure(lambda which, tol, deep, idx, result: result['skipped'] or result['raised'] is not None or result['received_original'],
             message='function_sees_original_arguments: the wrapped function receives the caller\'s own objects, iterators not consumed')
@deal.ensure(lambda which, tol, deep, idx, result: result['skipped'] or result['raised'] is not None or result['repeat_hit'] in (None, True),
             message='same_rounding_shares_entry: an equal argument given again is answered from the cache')
@deal.ensure(lambda which, tol, deep, idx, result: result['skipped'] or result['raised'] is not None or result['near_shares'] in (None, True),
             message='same_rounding_shares_entry: floats inside a tuple or dict (subclass) are rounded with deep=True')
def exotic_c(which, tol, deep, idx):
    import klepto
    import klepto.safe
    from klepto.keymaps import stringmap
    name, mk, by_value, oneshot, is_container = EXOTIC[idx]
    out = {'skipped': False, 'raised': None, 'received_original': True, 'repeat_hit': None, 'near_shares': None}
    log = []

    def f(x, y=0):
        log.append(x)
        return 'r'

    def build(t):
        if which == 'keygen':
            return klepto.keygen(tol=t, deep=deep, keymap=stringmap())(f)
        dec = {'inf_cache': klepto.inf_cache, 'lru_cache': klepto.lru_cache, 'safe.lfu_cache': klepto.safe.lfu_cache}[which]
        return dec(tol=t, deep=deep, keymap=stringmap())(f)
    try:
        build(None)(mk(1.26))       # the call is valid without a tolerance
    except Exception:      # noqa
        out['skipped'] = True
        return out
    try:
        w = build(tol)
        v = mk(1.26)
        w(v)
        if which == 'keygen':
            if oneshot:
                out['received_original'] = list(v) == [1.26, 2]
            return out
        out['received_original'] = bool(log) and log[-1] is v and (not oneshot or list(v) == [1.26, 2])
        if by_value:
            n = len(log)
            w(mk(1.26))
            out['repeat_hit'] = len(log) == n
            if is_container and deep and tol == 1:
                n = len(log)
                w(mk(1.31))
                out['near_shares'] = len(log) == n
    except Exception as e:      # noqa
        out['raised'] = e
    return out



@deal.ensure(lambda which, tol, deep, dflt, result: result['raised'] is None and result['same_key'],
             message='default_omitted_or_spelled_out: with a tolerance, omitting a float default and spelling it out give the same key')
def defaultkey_c(which, tol, deep, dflt):
    import klepto
    import klepto.safe
    from klepto.keymaps import keymap as rawmap
    ns = {}
    exec("def f(x, y=%r):\n    return (x, y)\n" % dflt, ns)
    f = ns['f']
    out = {'raised': None, 'same_key': None}
    try:
        if which == 'keygen':
            kf = klepto.keygen(tol=tol, deep=deep, keymap=rawmap())(f)
        else:
            dec = {'inf_cache': klepto.inf_cache, 'lru_cache': klepto.lru_cache, 'safe.lfu_cache': klepto.safe.lfu_cache}[which]
            kf = dec(tol=tol, deep=deep, keymap=rawmap())(f).key
        out['same_key'] = (kf(1) == kf(1, dflt)) and (kf(1) == kf(1, y=dflt))
    except Exception as e:      # noqa
        out['raised'] = e
    return out


# ---- units -------------------------------------------------------------------------------------------------
def units(tier, seed):
    depth = 3 if tier == 'thorough' else 2
    us = [('rounder', kind, depth) for kind in ('simple', 'deep', 'shallow')]
    for which in ('inf_cache', 'lru_cache', 'safe.lfu_cache', 'keygen'):
        for deep in (False, True):
            us.append(('keys', which, deep, depth))
    us.append(('exotic',))
    from bounded import reserved_names as RN
    n = len(RN.names())
    us += [('reserved', lo, min(lo + 8, n)) for lo in range(0, n, 8)]
    return us


def klass_of(kind, value, msg):
    def feats(x, top=True):
        out = set()
        if isinstance(x, dict):
            if any(not isinstance(k, str) for k in x):
                out.add('dict with non-str keys')
            for v in x.values():
                out |= feats(v, False)
        elif isinstance(x, (list, tuple, set, frozenset)):
            for v in x:
                out |= feats(v, False)
        elif isinstance(x, str):
            out.add('str' + (' (top level)' if top else ''))
        elif isinstance(x, bytes):
            out.add('bytes' + (' (top level)' if top else ''))
        return out
    return '%s: %s' % (kind, ', '.join(sorted(feats(value))) or 'plain containers')


def run_unit(unit):
    out = {'evaluations': 0, 'distinct': 0, 'violations': [], 'samples': [], 'counters': {}}
    seen = set()
    if unit[0] == 'reserved':
        from bounded import reserved_names as RN
        return RN.run_c12(unit[1], unit[2])
    if unit[0] == 'exotic':
        for which in ('inf_cache', 'lru_cache', 'safe.lfu_cache', 'keygen'):
            for deep in (False, True):
                for tol in TOLS:
                    for idx in range(len(EXOTIC)):
                        out['evaluations'] += 4
                        out['distinct'] += 1
                        try:
                            exotic_c(which, tol, deep, idx)
                        except deal.PostContractError as e:
                            clause = str(e.message).split(':')[0]
                            klass = 'an argument that is a %s%s' % (EXOTIC[idx][0], ' (deep=True)' if deep else '')
                            if (clause, klass) in seen:
                                continue
                            seen.add((clause, klass))
                            out['violations'].append({'clause': clause, 'klass': klass,
                                                      'message': '%s(tol=%r, deep=%r) called with a %s: %s' % (which, tol, deep, EXOTIC[idx][0], e.message),
                                                      'witness': {'unit': 'exotic', 'which': which, 'deep': deep, 'tol': tol, 'index': idx}})
        out['samples'].append({'exotic arguments': [e[0] for e in EXOTIC]})
        return out
    if unit[0] == 'rounder':
        _, kind, depth = unit
        vals = structures(depth)
        out['distinct'] = sum(1 for v in vals if has_float(v))
        for vi, v in enumerate(vals):
            for tol in TOLS:
                for as_kw in (False, True):
                    out['evaluations'] += 4
                    try:
                        rounder_c(kind, tol, v, as_kw)
                    except deal.PostContractError as e:
                        clause = str(e.message).split(':')[0]
                        klass = klass_of(kind, v, clause)
                        if (clause, klass) in seen:
                            continue
                        seen.add((clause, klass))
                        out['violations'].append({'clause': clause, 'klass': klass,
                                                  'message': '%s_round(tol=%r) on %s %r: %s' % (kind, tol, 'keyword' if as_kw else 'positional', v, e.message),
                                                  'witness': {'unit': 'rounder', 'kind': kind, 'depth': depth, 'index': vi, 'tol': tol, 'as_kw': as_kw}})
        out['samples'].append({'rounder': kind, 'structures': len(vals), 'example': repr(vals[len(vals) // 2])})
    else:
        _, which, deep, depth = unit
        vals = [v for v in structures(depth - 1 if depth > 2 else depth) if has_float(v) or not isinstance(v, (list, dict, set))][:60]
        out['distinct'] = len(vals)
        import klepto   # noqa
        for tol in TOLS:
            for i, v1 in enumerate(vals):
                # partner values: itself, the same structure with floats nudged within / across a rounding boundary
                for v2 in partners(v1):
                    out['evaluations'] += 3
                    try:
                        keypair_c(which, tol, deep, v1, v2)
                    except deal.PostContractError as e:
                        clause = str(e.message).split(':')[0]
                        klass = klass_of('%s(deep=%s)' % (which, deep), v1, clause)
                        if (clause, klass) in seen:
                            continue
                        seen.add((clause, klass))
                        out['violations'].append({'clause': clause, 'klass': klass,
                                                  'message': '%s(tol=%r, deep=%r): calls with %r and %r: %s' % (which, tol, deep, v1, v2, e.message),
                                                  'witness': {'unit': 'keys', 'which': which, 'deep': deep, 'depth': depth, 'index': i, 'tol': tol,
                                                              'partner': partners(v1).index(v2)}})
        for tol in TOLS:
            for dflt in (1.26, 7, 'ab', 1.5):
                out['evaluations'] += 1
                try:
                    defaultkey_c(which, tol, deep, dflt)
                except deal.PostContractError as e:
                    clause = str(e.message).split(':')[0]
                    klass = 'a float default is mixed into the key after the rounding step (omitted default unrounded, spelled-out default rounded)'
                    if (clause, klass) in seen:
                        continue
                    seen.add((clause, klass))
                    out['violations'].append({'clause': clause, 'klass': klass,
                                              'message': '%s(tol=%r, deep=%r) on def f(x, y=%r): key(f(1)) != key(f(1, %r))' % (which, tol, deep, dflt, dflt),
                                              'witness': {'unit': 'default', 'which': which, 'deep': deep, 'tol': tol, 'dflt': dflt}})
        out['samples'].append({'decorator': which, 'deep': deep, 'values': len(vals)})
    return out


def nudge(x, d):
    if isinstance(x, float):
        return x + d
    if isinstance(x, dict):
        return {k: nudge(v, d) for k, v in x.items()}
    if isinstance(x, (list, tuple, set, frozenset)):
        return type(x)(nudge(v, d) for v in x)
    return x


def partners(v):
    return [snapshot(v), nudge(v, 0.004), nudge(v, 0.04), nudge(v, 0.4), nudge(v, 4.0)]


def replay(w):
    if 'dispatch' in w:
        from checks import c11_ignore
        return c11_ignore.replay(w)
    if 'reserved' in w:
        from bounded import reserved_names as RN
        return RN.replay(w)
    try:
        if w['unit'] == 'exotic':
            exotic_c(w['which'], w['tol'], w['deep'], w['index'])
            return False, '%s(tol=%r, deep=%r) called with a %s: contract holds' % (w['which'], w['tol'], w['deep'], EXOTIC[w['index']][0])
        if w['unit'] == 'default':
            defaultkey_c(w['which'], w['tol'], w['deep'], w['dflt'])
            return False, 'keys agree'
        if w['unit'] == 'rounder':
            v = structures(w['depth'])[w['index']]
            rounder_c(w['kind'], w['tol'], v, w['as_kw'])
            return False, '%s_round(tol=%r) on %r: contract holds' % (w['kind'], w['tol'], v)
        depth = w['depth']
        vals = [v for v in structures(depth - 1 if depth > 2 else depth) if has_float(v) or not isinstance(v, (list, dict, set))][:60]
        v1 = vals[w['index']]
        v2 = partners(v1)[w['partner']]
        keypair_c(w['which'], w['tol'], w['deep'], v1, v2)
        return False, '%s(tol=%r, deep=%r) on %r / %r: contract holds' % (w['which'], w['tol'], w['deep'], v1, v2)
    except deal.PostContractError as e:
        return True, 'violated: %s -- %r' % (e.message, w)


def level_a(tier):
    """wrapper-level clauses of C12 proved by pyvc: on every path of all 12 wrappers the user function is entered with the
    caller's own *args/**kwds; key() returns the key of the rounded arguments; __init__ selects simple_round(tol) / deep_round(tol)"""
    from checks import wrapperprops
    a = wrapperprops.level_a_summary('C12', tier)
    b = wrapperprops.rounding_level_a()      # the real simple_round body under contract (contracts/rounding_contracts.py)
    return {'obligations': a['obligations'] + b['obligations'], 'discharged': a['discharged'] + b['discharged'],
            'failed': a['failed'] + b['failed'], 'functions': a['functions'] + b['functions'], 'ms': a['ms'] + b['ms'],
            'unsupported': a['unsupported'] + b['unsupported']}


def level_a_search(name):
    """a failed __new__ dispatch obligation: find the spelling of maxsize for which the configuration is not handed on"""
    from checks import c11_ignore
    return c11_ignore.level_a_search(name)
