"""C10 -- key discrimination: calls that bind unequal values never share a key; typed keys separate types (bounded)."""
from bounded import keychecks as KC

CROSSHAIR = ['bounded.xh.keymap_sidecar', 'bounded.xh.probe']
CONTRACTS = ['klepto._inspect._keygen', 'klepto.keymaps.keymap/hashmap/stringmap/picklemap', 'klepto.crypto.hash/string/pickle']
RULE = ('one evaluation = the key of one valid call under one information-preserving keymap configuration, recorded against '
        'the binding CPython produced; a violation is one key shared by two different bindings; distinct_nontrivial = distinct keys seen')
SCOPE = {
    'quick': 'callables as for C09 (quick); calls with 0..3 positionals and every subset of <=2 keywords, each also with the first '
             'argument replaced by 1, 1.0, True, "1", (1,), b"1"; the 48 configurations without builtin hash plus flat stringmap(encoding=latin_1) typed and untyped, restricted to those the '
             'statement calls information-preserving for the signature (non-flat; flat with sentinel or without *args)',
    'thorough': 'callables as for C09 (thorough); calls with 0..4 positionals and <=3 keywords with the same value variants',
}
ASSUMPTIONS = ['bounded scope, not a proof', 'md5 digests and repr() are injective on the enumerated values',
               'untyped configurations: values that compare equal (1 == 1.0 == True) are the same value']


def units(tier, seed):
    return KC.unit_list('thorough' if tier == 'thorough' else 'quick')


run_unit = KC.run_c10
replay = KC.replay_c10
