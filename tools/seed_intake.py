#!/usr/bin/env python3
"""usage: tools/seed_intake.py <worktree/_out dir> <property id> <first free number>
Take the deliverables of a seeding sub-agent (patch<i>.diff, demo<i>.py, meta<i>.json for i = 1, 2) into
/verif/seeded/<id>-<n>/ (patch.diff, demo.py, meta.json) and confirm each with tools/seed_confirm.sh."""
import json
import os
import shutil
import subprocess
import sys

VERIF = os.path.dirname(os.path.dirname(os.path.abspath(__file__)))


def main():
    out, pid, n = sys.argv[1], sys.argv[2], int(sys.argv[3])
    for i in (1, 2):
        src = {k: os.path.join(out, '%s%d.%s' % (k, i, ext)) for k, ext in (('patch', 'diff'), ('demo', 'py'), ('meta', 'json'))}
        if not all(os.path.exists(p) for p in src.values()):
            print('%s change %d: deliverables incomplete: %r' % (pid, i, [p for p in src.values() if not os.path.exists(p)]))
            continue
        sid = '%s-%d' % (pid, n)
        d = os.path.join(VERIF, 'seeded', sid)
        os.makedirs(d, exist_ok=True)
        shutil.copy(src['patch'], os.path.join(d, 'patch.diff'))
        shutil.copy(src['demo'], os.path.join(d, 'demo.py'))
        try:
            meta = json.load(open(src['meta']))
        except Exception as e:      # noqa
            meta = {'property': pid, 'summary': 'meta file unreadable: %r' % (e,)}
        meta['origin'] = 'independent sub-agent (third round) given only the property text, the mechanisms used before and a scratch worktree of /repo'
        r = subprocess.run([os.path.join(VERIF, 'tools', 'seed_confirm.sh'), d], capture_output=True, text=True)
        line = (r.stdout.strip().splitlines() or ['?'])[-1]
        meta['confirmed'] = 'tools/seed_confirm.sh: ' + line
        meta.setdefault('detected_by', [])
        json.dump(meta, open(os.path.join(d, 'meta.json'), 'w'), indent=1)
        print(line)
        n += 1


if __name__ == '__main__':
    main()
