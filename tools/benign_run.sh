#!/bin/sh
# usage: tools/benign_run.sh <patch.diff> [<prop>...]   -- run checks against a behaviour-preserving change (scratch copy of /repo):
# any VIOLATION / non-zero exit here is a false alarm of the machinery
P=$(cd "$(dirname "$1")" && pwd)/$(basename "$1"); shift
[ $# -eq 0 ] && set -- C01 C02 C03 C04 C05 C06 C07 C08 C09 C10 C11 C12 C13 C15 C16 C17 C18 C19 C20
V=$(cd "$(dirname "$0")/.." && pwd)
T=$(mktemp -d /tmp/benignrun.XXXXXX); trap 'rm -rf "$T"' EXIT
mkdir -p "$T/repo"; cp -r /repo/klepto "$T/repo/klepto"
(cd "$T/repo" && patch -p1 -s < "$P") || { echo "patch does not apply: $P"; exit 9; }
export KLEPTO_REPO="$T/repo"
for prop in "$@"; do
  OUT=$("$V/check" $prop 2>&1); RC=$?
  echo "BENIGN $(basename $(dirname $P)) check=$prop exit=$RC :: $(echo "$OUT" | grep -E '^(VIOLATION|UNDECIDED|CHECKER-BROKEN|NOTE)' | head -3 | sed 's/replay=[^ ]* //' | cut -c1-220 | tr '\n' ';')"
done
