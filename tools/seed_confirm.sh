#!/bin/sh
# usage: tools/seed_confirm.sh <seed-dir>   -- confirm a seeded change in a scratch worktree (removed afterwards):
#   demo passes on the pristine tree, fails with the patch; the 46 baseline tests still pass with the patch
S=$(cd "$1" && pwd); N=$(basename "$S")
WT=$(mktemp -d /tmp/seedconf.XXXXXX)/wt
trap 'git -C /repo worktree remove --force "$WT" >/dev/null 2>&1; rm -rf "$(dirname "$WT")"' EXIT
git -C /repo worktree add -q --detach "$WT" HEAD || exit 9
cp /repo/klepto/__info__.py "$WT/klepto/"
cd "$WT"
PYTHONPATH="$WT" /venv/bin/python "$S/demo.py" >/dev/null 2>&1; P0=$?
git apply "$S/patch.diff" 2>/dev/null || patch -p1 -s < "$S/patch.diff" || { echo "$N: patch does not apply"; exit 9; }
PYTHONPATH="$WT" /venv/bin/python "$S/demo.py" >/tmp/seedconf.$N.out 2>&1; P1=$?
PYTHONPATH="$WT" /venv/bin/python -m pytest -q -p no:cacheprovider --timeout=900 --continue-on-collection-errors klepto/tests 2>&1 | tail -1 > /tmp/seedconf.$N.pytest
echo "$N: demo pristine exit=$P0 patched exit=$P1 | pytest: $(cat /tmp/seedconf.$N.pytest) | $(tail -1 /tmp/seedconf.$N.out | cut -c1-160)"
rm -f /tmp/seedconf.$N.out /tmp/seedconf.$N.pytest
