"""Regenerate /verif/MANIFEST.json from the table below (and validate it against the schema).

usage: .venv/bin/python tools/mkmanifest.py
"""
import json
import os
import sys

VERIF = os.path.dirname(os.path.dirname(os.path.abspath(__file__)))

BASE_A = ('pyvc (the AST -> z3 VC generator in /verif/pyvc) and its assumed contracts of dict/deque/list/'
          'heapq/random/functools; z3 unsat answers; induction over call histories argued on paper; keys with '
          'sane __eq__/__hash__; single thread; deterministic, non-re-entrant user function; one cache object '
          'per wrapper. Full list: coverage.trusted_base in the evidence file and DESIGN.md section 7.')

TECH_A = ('contract-based deductive verification: sidecar contracts (requires/ensures/raises/frame/loop '
          'invariants, representation invariant Inv) on the real functions; verification conditions generated '
          'from the AST of /repo on every run by symbolic execution (pyvc) and discharged by z3; '
          'counter-models replayed on the real code through closure cells')

WRAPPER_FUC = 'wrapper/key/lookup/info/clear/archive closures and __call__ prologue of the 12 decorator classes in klepto/_cache.py and klepto/safe.py'

CHECKS = {}
NA = {}


def proof(pid, text, ref, note=BASE_A, technique=TECH_A):
    CHECKS[pid] = {
        'property_id': pid,
        'quick_cmd': './check %s --tier quick' % pid,
        'thorough_cmd': './check %s --tier thorough' % pid,
        'evidence_file': 'evidence/%s.json' % pid,
        'replay_cmd_template': './check --replay {path}',
        'engine': 'pyvc',
        'level_claimed': {'category': 'proof', 'text': text, 'design_ref': ref},
        'level_note': note,
        'technique': technique,
    }


def bounded(pid, text, ref, note, technique, category='exploration'):
    CHECKS[pid] = {
        'property_id': pid,
        'quick_cmd': './check %s --tier quick' % pid,
        'thorough_cmd': './check %s --tier thorough' % pid,
        'evidence_file': 'evidence/%s.json' % pid,
        'replay_cmd_template': './check --replay {path}',
        'engine': 'bounded',
        'level_claimed': {'category': category, 'text': text, 'design_ref': ref},
        'level_note': note,
        'technique': technique,
    }


def load_table():
    here = os.path.join(VERIF, 'tools', 'manifest_table.py')
    ns = {'proof': proof, 'bounded': bounded, 'NA': NA, 'WRAPPER_FUC': WRAPPER_FUC, 'BASE_A': BASE_A, 'TECH_A': TECH_A}
    with open(here) as f:
        exec(compile(f.read(), here, 'exec'), ns)
    return ns


def main():
    ns = load_table()
    props = [json.loads(l)['id'] for l in open(os.path.join(VERIF, 'properties.jsonl'))]
    missing = [p for p in props if p not in CHECKS and p not in NA]
    if missing:
        print('properties neither claimed nor not_applicable:', missing)
        return 1
    both = [p for p in props if p in CHECKS and p in NA]
    if both:
        print('both claimed and not_applicable:', both)
        return 1
    m = {
        'version': 1,
        'setup_cmd': './setup.sh',
        'hooks': {
            'guard': 'KLEPTO_VERIF',
            'enable': 'no hooks in /repo are needed: checks read /repo\'s source with ast, reach wrapper state '
                      'through closure cells and intercept file-system calls by monkey-patching in child processes',
            'baseline_off_cmd': 'cd /repo && /venv/bin/python -m pytest -ra -q -p no:cacheprovider --timeout=900 '
                                '--continue-on-collection-errors klepto/tests',
            'source_commits': [],
            'add_only': True,
        },
        'engines': ns.get('ENGINES', []),
        'checks': [CHECKS[p] for p in props if p in CHECKS],
        'notes': ns.get('NOTES', ''),
        'not_applicable': [{'property_id': p, 'reason': NA[p]} for p in props if p in NA],
    }
    path = os.path.join(VERIF, 'MANIFEST.json')
    tmp = path + '.tmp'
    with open(tmp, 'w') as f:
        json.dump(m, f, indent=1)
    try:
        import jsonschema
        schema = json.load(open('/root/.vp/MANIFEST.schema.json'))
        jsonschema.validate(m, schema)
    except ImportError:
        print('jsonschema not available: not validated')
    os.replace(tmp, path)
    print('MANIFEST.json written: %d checks, %d not_applicable' % (len(m['checks']), len(m['not_applicable'])))
    return 0


if __name__ == '__main__':
    sys.exit(main())
