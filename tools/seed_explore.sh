#!/bin/sh
# usage: tools/seed_explore.sh <seed-dir> [depth] [budget]  -- run the bounded explorer alone against a seeded change
S=$(cd "$1" && pwd); N=$(basename "$S")
T=$(mktemp -d /tmp/seedexp.XXXXXX); trap 'rm -rf "$T"' EXIT
mkdir -p "$T/repo"; cp -r /repo/klepto "$T/repo/klepto"
(cd "$T/repo" && patch -p1 -s < "$S/patch.diff") || exit 9
cd /verif && PYTHONDONTWRITEBYTECODE=1 PYTHONPATH="$T/repo" .venv/bin/python scratch/expl_all.py ${2:-5} ${3:-30} 2>&1 | grep -B1 "VIOL" | cut -c1-260 | sed "s/^/$N: /" | head -8
