#!/bin/sh
# usage: tools/seed_run.sh <seed-dir> [<prop>...]
# Run checks against a seeded change.  Default: on a scratch copy of /repo's working tree (KLEPTO_REPO), so that
# /repo is not disturbed and several seeds can be tried at once; with SEED_INPLACE=1 the patch is applied to
# /repo itself (git apply) and undone afterwards (git checkout -- .), which is the procedure of the brief.
S=$(cd "$1" && pwd); N=$(basename "$S"); shift
[ $# -eq 0 ] && set -- "${N%%-*}"
V=$(cd "$(dirname "$0")/.." && pwd)
if [ -n "$SEED_INPLACE" ]; then
  git -C /repo diff --quiet || { echo "/repo has local changes; refusing"; exit 9; }
  git -C /repo apply "$S/patch.diff" || { echo "$N: patch does not apply"; exit 9; }
  trap 'git -C /repo checkout -- . ' EXIT
else
  T=$(mktemp -d /tmp/seedrun.XXXXXX); trap 'rm -rf "$T"' EXIT
  mkdir -p "$T/repo"; cp -r /repo/klepto "$T/repo/klepto"
  (cd "$T/repo" && patch -p1 -s < "$S/patch.diff") || { echo "$N: patch does not apply"; exit 9; }
  export KLEPTO_REPO="$T/repo"
fi
for prop in "$@"; do
  OUT=$("$V/check" $prop 2>&1); RC=$?
  NV=$(echo "$OUT" | grep -c '^VIOLATION')
  echo "SEED $N check=$prop exit=$RC violations=$NV :: $(echo "$OUT" | grep -E '^(VIOLATION|UNDECIDED|CHECKER-BROKEN)' | head -3 | sed 's/replay=[^ ]* //' | cut -c1-200 | tr '\n' ';')"
done
