#!/bin/sh
# usage: tools/seed_run.sh <seed-dir> [<prop>...]  -- apply a seeded change to /repo, run the named checks
# (default: the property in the seed's name), undo the change.  Prints one summary line per check.
S=$(cd "$1" && pwd); N=$(basename "$S"); shift
[ $# -eq 0 ] && set -- "${N%%-*}"
V=$(cd "$(dirname "$0")/.." && pwd)
git -C /repo diff --quiet || { echo "/repo has local changes; refusing"; exit 9; }
git -C /repo apply "$S/patch.diff" || { echo "$N: patch does not apply"; exit 9; }
trap 'git -C /repo checkout -- . ' EXIT
for prop in "$@"; do
  OUT=$("$V/check" $prop 2>&1); RC=$?
  NV=$(echo "$OUT" | grep -c '^VIOLATION')
  echo "SEED $N check=$prop exit=$RC violations=$NV :: $(echo "$OUT" | grep -E '^(VIOLATION|UNDECIDED|CHECKER-BROKEN)' | head -3 | cut -c1-220 | tr '\n' ';')"
done
