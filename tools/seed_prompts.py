#!/usr/bin/env python3
"""usage: tools/seed_prompts.py <round dir outside /repo and /verif> <property id>...
Write the task of a seeding sub-agent (<round dir>/prompts/<id>.txt): the property's text, a scratch worktree, the
mechanisms earlier rounds used (first sentence of each seed's summary) -- and nothing else from /verif."""
import glob
import json
import os
import sys

VERIF = os.path.dirname(os.path.dirname(os.path.abspath(__file__)))


def main():
    rd, pids = sys.argv[1], sys.argv[2:]
    props = {json.loads(l)['id']: json.loads(l) for l in open(os.path.join(VERIF, 'properties.jsonl'))}
    prior = {}
    for m in sorted(glob.glob(os.path.join(VERIF, 'seeded', '*', 'meta.json'))):
        sid = os.path.basename(os.path.dirname(m))
        d = json.load(open(m))
        prior.setdefault(sid.split('-')[0], []).append(d.get('summary', '').split('. ')[0][:180])
    os.makedirs(os.path.join(rd, 'prompts'), exist_ok=True)
    for pid in pids:
        p = props[pid]
        w = os.path.join(rd, pid)
        txt = f"""You are helping evaluate a verification harness for the Python library klepto (a memoization library: LRU/LFU/MRU/RR cache decorators with keymaps, backed by dict-style archives). You have a scratch git worktree of the library at {w} (a checkout of the repository HEAD; the package is in {w}/klepto). Work ONLY inside that directory. Never touch /repo or /verif and do not read anything under /verif.

The property under study ({pid}): {p['title']}

Statement: {p['statement']}

Quantifier: {p['quantifier']}

Code anchors: {json.dumps(p['anchors'])}

YOUR TASK: produce TWO independent, realistic changes to the klepto source (files under klepto/, not the tests) each of which BREAKS this property for some inputs/histories while (a) the package still imports, (b) the existing test suite still passes exactly as before, and (c) the change looks like something a maintainer could plausibly commit (a refactoring, an optimisation, a cleanup, a fix for something else) -- no obvious markers, no special-casing of magic values, no comments that reveal the intent. The two changes must use different mechanisms and touch different functions. Make them SUBTLE: the effect should show only for a particular configuration AND a particular input or history of operations (two or three steps), not for the simplest use. Avoid the configuration `serialized=False` (source-text archives), which is known to be fragile already, and positional-only parameters (PEP 570), which the library predates.

Mechanisms ALREADY USED by earlier rounds for this property (do not repeat these):
""" + '\n'.join('  - ' + x for x in prior.get(pid, [])) + f"""

How to run the test suite in your worktree (takes about a minute):
  cd {w} && PYTHONPATH={w} /venv/bin/python -m pytest -q -p no:cacheprovider --timeout=900 --continue-on-collection-errors klepto/tests 2>&1 | tail -3
On the pristine tree this gives 46 passed and 7 not passing (3 failed + 4 errors: missing optional dependencies). With each of your changes the result must be the same.
Run python as:  PYTHONPATH={w} /venv/bin/python . There is no network. Do not install anything. Do not use `git stash`.

DELIVERABLES, for each change i = 1, 2, in {w}/_out/ (create it):
  patch<i>.diff   - `git diff` of that change ALONE against the pristine HEAD. Make change 1, save its diff, `git checkout -- klepto`, make change 2, save its diff, `git checkout -- klepto`.
  demo<i>.py      - a self-contained script (klepto, dill, standard library only; files in a tempfile.mkdtemp() directory that it removes) that exits 0 on the pristine tree and exits 1 (assertion with a clear message) on the changed tree, demonstrating a violation of the property as stated.
  meta<i>.json    - {{"property": "{pid}", "summary": "...", "needs": "...", "files": ["klepto/..."], "agent_ran": ["..."]}}
Verify before you finish; leave the worktree pristine; keep only _out/. Reply with a short description of the two changes and anything odd you noticed about the UNCHANGED tree."""
        open(os.path.join(rd, 'prompts', pid + '.txt'), 'w').write(txt)
        print(os.path.join(rd, 'prompts', pid + '.txt'))


if __name__ == '__main__':
    main()
