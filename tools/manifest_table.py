# Table of claims, exec'd by tools/mkmanifest.py (proof(), bounded(), NA are provided by it).

ENGINES = [
    {'name': 'pyvc', 'path': 'pyvc/', 'kind_free_text':
        'verification-condition generator for a Python subset: re-reads /repo/klepto/*.py with ast on every run, '
        'executes the functions under contract symbolically on all paths (exceptional edges included) against '
        'sidecar contracts in contracts/, emits one z3 query per (path, clause group), refines failures per clause, '
        'extracts small-scope counter-models and replays them on the real code',
     'serves_properties': ['C01', 'C02', 'C05', 'C06', 'C07', 'C08', 'C15', 'C16', 'C18']},
]

NOTES = ('Exit codes of every check: 0 held / 1 violation (VIOLATION line) / 2 undecided (solver unknown or source outside '
         'the supported subset; never printed as a violation) / 3 checker broken. See DESIGN.md.')

proof('C01',
      'For every one of the 12 wrappers, on every path of the real body, from every state satisfying the '
      'representation invariant: the returned value equals F(args) (hit, archive load, miss, safe fall-backs), and '
      'every operation exposed on the wrapper preserves Inv_val (every stored value is the function value of its '
      'key). Unbounded in history length (by induction over Inv), cache contents, maxsize, purge.',
      'DESIGN.md 5 C01, Appendix A',
      BASE_A + ' Stated under (A-kappa): calls with equal keys have equal results - that klepto\'s keymaps deliver '
      'it is C09-C12. The archive is abstracted by the lossless/null dict contract (C03 decides how far each '
      'backend meets it).')

proof('C02',
      'Per wrapper and path: the user function is entered at most once, and exactly when the key is in neither '
      'memory nor the switched-on archive (safe variants: or the key is unusable); together with C07\'s clauses '
      '(every key leaving memory is in the archive) this gives at-most-once per key with a lossless archive.',
      'DESIGN.md 5 C02')

proof('C05',
      'On every exit (normal or exceptional) of every wrapper: |mem\'| <= max(maxsize, |mem|); no_cache leaves '
      'nothing resident; inf_cache never evicts; archived+purge overflow empties memory. The pre-state is any Inv '
      'state, including caches overfilled by load() with empty bookkeeping. Eviction loops carry invariants.',
      'DESIGN.md 5 C05')

proof('C06',
      'Per wrapper and path, overflow without purge: LRU removes exactly the resident key whose most recent use '
      '(last occurrence in the recency queue) is oldest; MRU the one used most recently before this call; LFU '
      'only keys whose use count is <= that of every key kept; RR exactly one resident key; a hit removes '
      'nothing; survivors keep their values; every use is recorded and the relative recency order of the other '
      'resident keys is preserved - including through the LRU queue compaction, whose loop carries an inductive '
      'invariant (order of last occurrences preserved), so the proof is unbounded in queue length and history.',
      'DESIGN.md 5 C06',
      BASE_A + ' The victim clauses are stated under Coh (every resident key entered through a call since the '
      'last clear, i.e. has bookkeeping); for keys brought in by a bulk load() "most recent use" is undefined. '
      'RR: random.choice is "some element".')

proof('C07',
      'Per wrapper and path, with the archive on: every entry of mem + the new entry is afterwards in mem or in '
      'the archive with its value; archived entries keep their values; the parked archive is untouched. LFU '
      'multi-victim loop under a loop invariant.',
      'DESIGN.md 5 C07')

proof('C08',
      'The real methods of klepto._archives.cache (load, dump, sync, archived, open, drop, the archive property), '
      'executed symbolically from an arbitrary (mem, bound archive, parked archive): each sentence of C08 is a '
      'postcondition discharged on every path - dump()/dump(k..) = archive overlaid by the cache (only the given '
      'resident keys), load likewise in the other direction, sync and sync(clear=True), the swap logic of '
      'archived(flag)/open/drop, nothing changes while archiving is off, a null archive stays empty, inherited '
      'dict operations are not overridden. The same run proves that every real method refines the contract '
      '(contracts/kcache.py) that the wrapper proofs of C01 C02 C05 C06 C07 C15 C16 use at call sites.',
      'DESIGN.md 5 C08, Appendix B',
      BASE_A + ' Archive objects are abstracted by the dict contract (lossless) or the discard contract (null); how '
      'far each backend meets it is C03. Key arguments: 0, 1 and 2 keys (unrolled), not a symbolic number.')

proof('C15',
      'Per wrapper and path: exactly one of hit/miss/load moves by exactly one on a normal return, classified by '
      'where the result came from; info() returns the five CacheInfo fields (order read from tools.py); clear() '
      'empties memory and bookkeeping and zeroes the counters unless keepstats.',
      'DESIGN.md 5 C15')

proof('C16',
      'Per wrapper and path: a raising user function propagates the same exception after one evaluation with the '
      'whole abstract state unchanged; safe wrappers have no exceptional exit other than the user\'s exception '
      '(unhashable keys and raising key generation degrade to one direct evaluation).',
      'DESIGN.md 5 C16')

proof('C18',
      'key() returns exactly the term the wrapper stores under; lookup() returns the resident value or raises '
      'KeyError; neither evaluates the function nor changes memory, archive, queue, counters or statistics; '
      '__wrapped__ is the user function; load/dump/archived are the cache object\'s methods; every key a call adds to memory or '
      'archive is that same term. Plus a bounded probe on the real code (not counted as proved): every parameter name of klepto\'s own '
      'signatures as a user parameter name, 8 callable forms, 12 decorators: key()/lookup() agree with the calls made.',
      'DESIGN.md 5 C18')

for _p, _r in {

    'C14': 'interleavings of concurrent processes: sequential contract-based VCs cannot quantify over schedules and no '
           'concurrency logic/verifier is available (DESIGN.md section 5, C14)',
}.items():
    NA[_p] = _r

TECH_B = ('bounded stand-in for contract verification: deal contracts on sidecar wrappers of the real functions, '
          'checked at run time on an exhaustive enumeration of a stated small scope (16 processes); oracle = CPython itself')

bounded('C19',
        'Bounded (not a proof): for every callable shape and call form of the stated scope, isvalid/validate agree with '
        'what CPython\'s binder does when a side-effect-free stub of the same shape is actually called, and never enter '
        'the callable. Values are irrelevant to binding, so the enumeration is complete for its scope (quick: ~25k pairs, '
        'thorough: ~430k pairs).',
        'DESIGN.md 5 C19, 3.8',
        'bounded scope (shapes with <=3 positional-or-keyword and <=2 keyword-only parameters, partials fixing <=2 positionals '
        'and/or one keyword, <=4 positionals and <=3 keywords per call); no symbolic-signature proof was attempted (DESIGN.md 2).',
        TECH_B)

bounded('C09',
        'Level-A part (pyvc, counted in coverage.obligations): the real keymap.encode/encrypt, 8 configurations x call shapes with <=2 positional '
        'and <=2 keyword arguments, symbolic values: the key does not depend on the insertion order of the keyword dict and equals its '
        'specification (98 obligation instances). Bounded (not a proof): over all callable shapes, call forms (positional/keyword spellings, every keyword order, defaults '
        'spelled out or omitted) and 68 keymap configurations (chained keymaps a + b included) of the stated scope, plus reserved parameter names, functions named like a method of their argument and shared vs equal argument objects, calls for which CPython binds the same values to '
        'the same parameters get equal keys from the real key path keymap(*_keygen(f, (), *args, **kwds)).',
        'DESIGN.md 5 C09, 3.8',
        'bounded scope; binding ground truth = calling a stub of the same shape; that every wrapper composes rounded_args -> _keygen -> '
        'keymap identically in the call path, key() and lookup() is proved under C18; "the second call is served from the cache" then '
        'follows from C02\'s clause.', TECH_B)

bounded('C10',
        'Bounded (not a proof): over the same scope with value variants (1, 1.0, True, "1", (1,), b"1", the tuple of the positionals, a sibling\'s default; chained keymaps included), no key is shared by two calls that '
        'CPython binds to unequal values, for every configuration the statement lists as information-preserving; typed configurations '
        'also separate equal values of different type.',
        'DESIGN.md 5 C10, 3.8',
        'bounded scope; md5 digests and repr are assumed injective on the enumerated values; one known finding (flat stringmap, lone '
        'extra positional) is listed in known_findings.json.', TECH_B)

bounded('C11',
        'Bounded (not a proof): for every ignore specification of size <=2 (names, a foreign name, indices, "*", "**") and every callable '
        'of the scope, the _keygen output is in 1-1 correspondence with the binding CPython produced with the selected arguments blanked '
        'out: ignored arguments never influence it, every other argument still does.',
        'DESIGN.md 5 C11, 3.8',
        'bounded scope; partials fixing keywords are outside it; "not re-evaluated" follows from C02. Level-A part (pyvc, counted in '
        'coverage.obligations): the maxsize dispatch (__new__) of the 8 bounded decorator classes hands ignore on to the class it picks.', TECH_B + '; __new__ dispatch by pyvc + z3')

bounded('C17',
        'Bounded (not a proof): the keys of the C09 scope (48 configurations without builtin hash, with and without ignore specifications) '
        'are computed in fresh interpreters under 3 (thorough: 8) different PYTHONHASHSEEDs and must be identical; writer/reader sessions with '
        'different hash seeds on dir, file and sqlite archives x 10 keymaps must serve the reader by loads only; the sessions also differ in '
        'keyword order and in history (a failed key build); arguments of a __main__ class under picklemaps with serializer options and under '
        'every named hash algorithm.',
        'DESIGN.md 5 C17, 3.8',
        'bounded scope; values with process-independent repr/pickle; builtin-hash keymaps excluded as in the statement.',
        TECH_B + '; fresh interpreter processes per hash seed')

bounded('C12',
        'Two parts. Level A (pyvc, counted in coverage.obligations): on every path of all 12 wrappers the user function is entered with '
        'the caller\'s own *args/**kwds, and __init__ selects simple_round(tol) by default and deep_round(tol) when deep; the real simple_round body for every call shape with <=3 '
        'positional and <=2 keyword arguments and symbolic values: rounded iff float, else the identical object, same shape, never raises '
        '(810 obligation instances). Bounded (not a '
        'proof): simple/deep/shallow rounders and the key path of inf_cache/lru_cache/safe.lfu_cache/keygen against an independent '
        'oracle built on Python\'s round over nested argument structures (depth <=3, tol in {None,-1,0,1,2}): rounds like the oracle, '
        'never fails, never mutates its input, leaves non-float data intact, keys merge exactly the calls that round alike, the function '
        'receives the original objects; arguments that are not plain containers (namedtuple, range, deque, iterators, ...) and reserved '
        'parameter names do not make a call fail. The property as a whole is claimed at the weaker level.',
        'DESIGN.md 5 C12',
        'bounded scope for the rounding functions themselves (no Level-A proof of simple_round/deep_round bodies); no NaN; one-shot iterables, ranges, namedtuples etc. only as single top-level arguments.',
        TECH_B + '; wrapper clauses by pyvc + z3')

bounded('C03',
        'Two parts. Level A (pyvc, counted in coverage.obligations; contracts/archive_classes.py): the mapping-protocol glue of file_archive '
        '(14 methods) and dir_archive (10 methods), executed symbolically from an arbitrary stored content, refines the dict operation on that '
        'content (result/KeyError, contents afterwards, contents unchanged on an exceptional exit or a rejected encoding, no handle-local '
        'state) over the ASSUMED contracts of the primitives file_archive.__asdict__/__save__ and dir_archive._lookup/_store/_rmdir/'
        '__contains__/_lsdir (key-to-entry mapping assumed injective); null_archive stays empty under every overriding method. '
        'Bounded (not a proof): 11 archive configurations driven through the whole mapping protocol against a Python dict: every '
        'operation from every prior state with <=2 (thorough: <=3) keys, plus seeded operation sequences without reset; after each '
        'operation the result/exception, the contents, len(), and the contents of an archive stored under another name are compared; '
        'un-encodable values must leave the contents unchanged; copy(name) must be equal and independent; == must compare contents; the '
        'null archive must discard writes.',
        'DESIGN.md 5 C03',
        'bounded scope; two known findings (dir_archive key aliasing; dir_archive(serialized=False) import-based reader) are listed in '
        'known_findings.json; hdf and sqlalchemy backends are not installed and not covered. For file_archive(serialized=True) the two '
        'primitives are themselves proved over an assumed file-system contract (contracts/fs_contracts.py, counted in coverage.obligations).',
        TECH_B.replace('deal contracts on sidecar wrappers of the real functions', 'run-time contract monitor (dict refinement) on the real archive objects'))

bounded('C04',
        'Bounded (not a proof): after seeded write histories on 9 persistent archive configurations, the same handle, a fresh handle, a '
        'fresh interpreter process, a handle rebuilt from .state, copy(), a dill round trip of the handle and a handle obtained after '
        're-opening twice all read exactly what was written (key types preserved, values equal, values mutated after the store unaffected).',
        'DESIGN.md 5 C04',
        'bounded scope; the file system / sqlite file is assumed to show every process the same bytes; three listed findings (source-text '
        'archives read through import; sqlite handle not picklable); "a re-created decorated function is served from the archive" is checked '
        'end-to-end under C17; the contract-level obligations of DESIGN.md 5 C04 (state-only-in-store as a frame condition of Level-A '
        'archive contracts) were not built.',
        TECH_B.replace('deal contracts on sidecar wrappers of the real functions', 'run-time contract monitor on the real archive objects and fresh interpreter processes'))

bounded('C13',
        'Fault enumeration on the real code: for every operation of the scope the writer process is killed immediately before each file-system / '
        'database primitive klepto reaches (os.remove/unlink/rename/renames/replace/mkdir/makedirs/rmdir, open-for-write, write (also after '
        'half of the data), close, sqlite execute/commit) and a fresh process then opens and reads the archive; the recovered contents must be '
        'readable, old-or-new for every touched key, unchanged for every other key, with no key that was never stored. Every crash index of '
        'every operation of the scope is enumerated (exhaustive for that scope). In addition the writer of one large value is killed by the kernel '
        '(file-size limit, SIGXFSZ) at six places inside the write calls of the library / of sqlite\'s commit.',
        'DESIGN.md 5 C13',
        'crash granularity is the Python-level primitive plus half-written data (plus the six kernel-kill places); no power-failure/fsync model; sqlite journalling trusted otherwise; one '
        'listed finding (dir_archive overwrite window). Level-A part (pyvc, counted in coverage.obligations): for file_archive(serialized=True) '
        'the real __save__/__asdict__/__init__ and the eight mutating mapping methods are proved, over an ASSUMED file-system contract, to leave '
        'old or new contents readable after every single effect (contracts/fs_contracts.py); dir_archive and sqlite have no such proof.',
        'fault enumeration of the real code in killed child processes against an old-or-new recovery contract (bounded stand-in for the effect-sequence proof)',
        category='fault_enumeration')

bounded('C20',
        'Bounded (not a proof): for all 12 decorator classes, 96 configurations and every history prefix of <=3 (thorough: <=4) operations, the '
        'function is round-tripped through dill; the clone must equal the original in cache contents, archive contents, statistics, maxsize '
        'and archived() flag, must stay equal through 7 lock-step continuations (same results, same evictions, same statistics), and continuing '
        'a clone alone must leave the original\'s in-memory state unchanged.',
        'DESIGN.md 5 C20',
        'dill\'s by-value, sharing-preserving copy of closures is an assumed contract and is most of the property; rr_cache is compared with the '
        'global random generator re-seeded before each lock-step operation. Also: file/dir archives (pickle, json) as shared storage across the '
        'round trip, a cached method copied by value. Level-A part (pyvc, counted in coverage.obligations): X.__reduce__() + X(*args) rebuilds an '
        'equal configuration for the 12 decorator classes and the 3 rounding classes.',
        TECH_B.replace('deal contracts on sidecar wrappers of the real functions', 'run-time lock-step comparison of the real decorated function and its dill clone'))
