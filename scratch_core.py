import sys, time, collections
sys.path.insert(0,'/verif')
import z3
from contracts import wrappers as W
mod, cls, pathsel = sys.argv[1], sys.argv[2], sys.argv[3]
m = [x for x in W.MODULES if x[0]==mod][0]
c = W.Case(m[0], m[1], m[2], cls)
obs = c.obligations_call()
for o in obs:
    if o.kind=='clause' and o.path==pathsel:
        s = z3.Solver(); s.set('timeout', 10000)
        ps=[]
        for i,p in enumerate(o.pc):
            b = z3.Bool('p%d'%i); s.assert_and_track(p, b); ps.append((b,p))
        r = s.check()
        print(r)
        if r==z3.unsat:
            core = s.unsat_core()
            for b,p in ps:
                if any(b.eq(cb) for cb in core): print('---', b, str(p)[:600])
        break
